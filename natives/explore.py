"""Schedule enumeration for natives/sim.py: every choice sequence up to a depth (then FIFO), plus seeded random
longer ones.  A schedule is replayed from scratch on a fresh engine."""
import itertools
import random


def schedules(depth, width=3, seed=0, extra=20, long_len=14):
    seen = set()
    for d in range(depth + 1):
        for s in itertools.product(range(width), repeat=d):
            if s and s[-1] == 0:
                continue            # trailing FIFO choices are implied
            if s not in seen:
                seen.add(s)
                yield list(s)
    rnd = random.Random(seed)
    for _ in range(extra):
        yield [rnd.randrange(width + 1) for _ in range(long_len)]


def explore(make_sim, check, depth, width=3, seed=0, extra=20, limit=None, mode="all", warm=0):
    """make_sim() -> Sim;  check(sim, trace) -> list of problems.  Returns a natives result dict.
    warm: that many FIFO steps come before the enumerated choices (to reach a point deep in a run where several things are
    outstanding at once and enumerate the interleavings from THERE)."""
    n = 0
    traces = set()
    samples = []
    for sch in schedules(depth, width, seed, extra):
        sch = [0] * warm + sch
        sim = make_sim()
        trace = sim.run(sch, mode=mode)
        key = (mode,) + tuple(trace)
        if key in traces:
            continue
        traces.add(key)
        n += 1
        probs = check(sim, trace)
        if probs:
            return {"failed": True, "evaluations": n, "input": {"schedule": trace, "mode": mode}, "detail": "; ".join(probs)[:1500]}
        if len(samples) < 3 and n % 37 == 1:
            samples.append({"schedule": trace})
        if limit and n >= limit:
            break
    return {"failed": False, "evaluations": n, "distinct": len(traces), "samples": samples}


def merge(results, what):
    tot = {"failed": False, "evaluations": 0, "distinct": 0, "samples": []}
    for name, r in results:
        tot["evaluations"] += r.get("evaluations", 0)
        tot["distinct"] += r.get("distinct", 0)
        for smp in r.get("samples", [])[:1]:
            tot["samples"].append(dict(smp, scenario=name))
        if r.get("failed"):
            return {"failed": True, "evaluations": tot["evaluations"], "input": dict(r.get("input", {}), scenario=name),
                    "detail": "%s [%s]: %s" % (what, name, r.get("detail"))}
    tot["samples"] = tot["samples"][:4]
    return tot
