"""Bounded stand-in for C02 (never counted as proved): the heartbeat back-stop that fails executions whose fan-out
is stuck past the machine's TimeoutSeconds must end the execution exactly once (StateEngine.heartbeat ->
check_for_expired_branch_results -> end_execution), through the REAL engine."""
import time

from natives import sim as S
from natives.c05 import task


def expired_backstop(seed=0, tier="quick", **_):
    r1 = _backstop(lost_event=False)
    if r1.get("failed"):
        return r1
    r2 = _backstop(lost_event=True)
    if r2.get("failed"):
        return r2
    return {"failed": False, "evaluations": r1["evaluations"] + r2["evaluations"], "distinct": 2,
            "samples": [{"heartbeats": [60, 120, 180], "lost_branch_event": False}, {"heartbeats": [60, 120, 180], "lost_branch_event": True}]}


def _backstop(lost_event):
    asl = {"StartAt": "P", "TimeoutSeconds": 0, "States": {"P": {"Type": "Parallel", "End": True, "Branches": [
        {"StartAt": "A", "States": {"A": task("stuck1")}}, {"StartAt": "B", "States": {"B": task("stuck2")}}]}}}
    sim = S.Sim(asl, {"x": 1}, tasks={"stuck1": lambda p, k: S.NOREPLY, "stuck2": lambda p, k: S.NOREPLY})
    guard = 0
    if lost_event:
        # one branch's start event is lost for good ("logged and dropped"): its result slot can never be filled and there
        # is nothing to cancel, so the join state survives the first back-stop round; the later rounds must only delete it
        while len(sim.requests) < 1 and sim.enabled() and guard < 60:
            guard += 1
            acts = sim.enabled()
            pick = 0
            for i, a in enumerate(acts):
                if a[0] == "deliver":
                    import json as _json
                    st = _json.loads(sim.queue[a[1]][1])["context"].get("State", {})
                    if st.get("Name") == "B":
                        del sim.queue[a[1]]              # the event of branch B is dropped, never delivered
                        pick = None
                        break
            if pick is None:
                continue
            sim.step(0)
    while not lost_event and len(sim.requests) < 2 and sim.enabled() and guard < 60:   # run until both branch tasks are outstanding
        guard += 1
        sim.step(0)
    # the branch events are held by the join; their (task start / timeout) timers are lost -- e.g. the timer wheel of a
    # previous engine instance -- so only the back-stop can end the execution
    sim.cleared |= set(t[1] for t in sim.timers)
    time.sleep(0.01)
    n = 0
    for beat in (60, 120, 180):
        sim.engine.heartbeat(beat)
        n += 1
    term = sim.terminal_notifications()
    rec = sim.record() or {}
    probs = []
    if [m["detail"]["status"] for m in term] != ["FAILED"]:
        probs.append("C02: terminal notifications after three back-stop heartbeats: %s (exactly one FAILED expected)"
                     % [m["detail"]["status"] for m in term])
    ends = [e["type"] for e in sim.history() if e["type"] in ("ExecutionFailed", "ExecutionSucceeded")]
    if ends != ["ExecutionFailed"]:
        probs.append("C02/C09: terminal history events %s" % ends)
    if rec.get("status") != "FAILED" or rec.get("error") != "States.Timeout":
        probs.append("C02: record %s %r" % (rec.get("status"), rec.get("error")))
    if sim.crashes:
        probs.append("; ".join(sim.crashes))
    if probs:
        return {"failed": True, "evaluations": n, "input": {"heartbeats": [60, 120, 180], "lost_branch_event": lost_event}, "detail": "; ".join(probs)}
    return {"failed": False, "evaluations": n, "distinct": n, "samples": [{"heartbeats": [60, 120, 180]}]}
