"""Bounded stand-in for C16 (never counted as proved): the execution-history limit, enforced in the body of
StateEngine.notify (not under a discharged contract), at its exact boundary through the REAL engine."""
from natives import sim as S

LIMIT = 25000


def history_limit(seed=0, tier="quick", **_):
    asl = {"StartAt": "A", "States": {"A": {"Type": "Pass", "Next": "B"}, "B": {"Type": "Pass", "End": True}}}
    n = 0
    for after_entry, want in ((LIMIT - 1, "SUCCEEDED"), (LIMIT, "SUCCEEDED"), (LIMIT + 1, "FAILED"), (LIMIT + 2, "FAILED")):
        sim = S.Sim(asl, {"x": 1})
        sim.step(0)                      # start event: ExecutionStarted, A entered, A exited, B published
        hist = sim.engine.execution_history[sim.ex_arn]
        base = len(hist)
        pad = after_entry - 1 - base     # B's StateEntered will be appended on top
        last = hist[-1]
        for i in range(pad):
            hist.append({"timestamp": last["timestamp"], "type": "PassStateExited", "id": base + i + 1,
                         "previousEventId": base + i, "stateExitedEventDetails": {"name": "pad", "output": "{}"}})
        sim.run()
        n += 1
        rec = sim.record() or {}
        if rec.get("status") != want or (want == "FAILED" and rec.get("error") != "States.ExecutionHistoryLimitExceeded"):
            return {"failed": True, "evaluations": n, "input": {"history_length_after_state_entry": after_entry},
                    "detail": "a state entered as event #%d of the history: execution %s (%r); the limit is %d events: at most %d is "
                              "accepted, one over fails with States.ExecutionHistoryLimitExceeded"
                              % (after_entry, rec.get("status"), rec.get("error"), LIMIT, LIMIT)}
    return {"failed": False, "evaluations": n, "distinct": n, "exhaustive": True,
            "samples": [{"history_length_after_state_entry": LIMIT}, {"history_length_after_state_entry": LIMIT + 1}]}
