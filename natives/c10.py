"""Bounded stand-in for C10 (never counted as proved): the state-machine API of BOTH front ends (Quart / Flask test
clients on the real RestAPI + real StateEngine + JSON file store) against a reference model that is just a map from
ARN to record, over enumerated call sequences mixing valid and invalid arguments."""
import asyncio
import copy
import itertools
import json
import os
import tempfile
from unittest import mock

ROLE = "arn:aws:iam::0123456789:role/service-role/MyRole"
ROLE2 = "arn:aws:iam::0123456789:role/service-role/Other"
DEF1 = {"StartAt": "P", "States": {"P": {"Type": "Pass", "End": True}}}
DEF2 = {"StartAt": "Q", "States": {"Q": {"Type": "Succeed"}}}
ARN = "arn:aws:states:local:0123456789:stateMachine:%s"


class Stub(object):
    def __init__(self, engine):
        self.state_engine = engine
        engine.event_dispatcher = self
        self.published = []
        self.session = mock.MagicMock()

    def publish(self, item, threadsafe=False, use_shared_queue=False, **kw):
        self.published.append(item)

    def broadcast(self, *a, **kw):
        pass

    def acknowledge(self, id):
        pass

    def set_timeout(self, callback, delay):
        return None


class Client(object):
    def __init__(self, which):
        import logging
        logging.disable(logging.CRITICAL)
        from asl_workflow_engine import event_dispatcher
        event_dispatcher.Message = mock.MagicMock()
        from asl_workflow_engine.state_engine import StateEngine
        self.which = which
        from natives.sim import _tmp_root
        tmp = tempfile.mkdtemp(prefix="c10_", dir=_tmp_root())
        cfg = {"state_engine": {"store_url": os.path.join(tmp, "ASL_store.json"), "execution_ttl": 500},
               "rest_api": {"host": "127.0.0.1", "port": 4584, "region": "local"}}
        cwd = os.getcwd()
        os.chdir(tmp)
        try:
            self.engine = StateEngine(cfg)
        finally:
            os.chdir(cwd)
        Stub(self.engine)
        if which == "asyncio":
            from asl_workflow_engine.rest_api_asyncio import RestAPI
        else:
            from asl_workflow_engine.rest_api import RestAPI
        self.client = RestAPI(self.engine, self.engine.event_dispatcher, cfg).create_app().test_client()
        import logging
        logging.disable(logging.CRITICAL)
        for name in ("asl_workflow_engine",):
            logging.getLogger(name).handlers = []
            logging.getLogger(name).propagate = False
        self.loop = asyncio.new_event_loop() if which == "asyncio" else None

    def call(self, action, params, raw=None):
        h = {"Content-Type": "application/x-amz-json-1.0", "x-amz-target": "AWSStepFunctions." + action}
        data = raw if raw is not None else json.dumps(params)
        if self.which == "asyncio":
            async def go():
                r = await self.client.post("/", headers=h, data=data)
                return r.status_code, await r.get_data()
            code, body = self.loop.run_until_complete(go())
        else:
            r = self.client.post("/", data=data, headers=h)
            code, body = r.status_code, r.get_data()
        try:
            body = json.loads(body.decode("utf8")) if body else None
        except ValueError:
            body = body.decode("utf8", "replace")
        return code, body

    def store(self):
        return json.loads(json.dumps(dict(self.engine.asl_store)))


def ops():
    """(label, action, params or raw body, reference transition)"""
    o = []
    for n in ("m1", "m2"):
        o.append(("create-" + n, "CreateStateMachine", {"name": n, "roleArn": ROLE, "definition": json.dumps(DEF1)}))
    o += [
        ("create-bad-name", "CreateStateMachine", {"name": "bad name", "roleArn": ROLE, "definition": json.dumps(DEF1)}),
        ("create-bad-json", "CreateStateMachine", {"name": "m3", "roleArn": ROLE, "definition": "{"}),
        ("create-no-role", "CreateStateMachine", {"name": "m3", "definition": json.dumps(DEF1)}),
        ("describe-m1", "DescribeStateMachine", {"stateMachineArn": ARN % "m1"}),
        ("describe-unknown", "DescribeStateMachine", {"stateMachineArn": ARN % "zz"}),
        ("describe-bad-arn", "DescribeStateMachine", {"stateMachineArn": "nonsense"}),
        ("update-m1-role", "UpdateStateMachine", {"stateMachineArn": ARN % "m1", "roleArn": ROLE2}),
        ("update-m1-def", "UpdateStateMachine", {"stateMachineArn": ARN % "m1", "definition": json.dumps(DEF2)}),
        ("update-m1-nothing", "UpdateStateMachine", {"stateMachineArn": ARN % "m1"}),
        ("update-m1-role-bad-def", "UpdateStateMachine", {"stateMachineArn": ARN % "m1", "roleArn": ROLE2, "definition": "{"}),
        ("update-unknown", "UpdateStateMachine", {"stateMachineArn": ARN % "zz", "roleArn": ROLE2}),
        ("delete-m1", "DeleteStateMachine", {"stateMachineArn": ARN % "m1"}),
        ("delete-unknown", "DeleteStateMachine", {"stateMachineArn": ARN % "zz"}),
        ("list", "ListStateMachines", {}),
    ]
    return o


def ref(model, label, action, params):
    """-> (expect_ok, error type or None, new model)"""
    m = copy.deepcopy(model)
    if action == "CreateStateMachine":
        name = params.get("name")
        if not isinstance(name, str) or " " in name or not name:
            return False, "InvalidName", m
        if not params.get("roleArn"):
            return False, None, m
        try:
            d = json.loads(params.get("definition"))
        except Exception:
            return False, "InvalidDefinition", m
        arn = ARN % name
        if arn in m:
            return False, "StateMachineAlreadyExists", m
        m[arn] = {"definition": d, "roleArn": params["roleArn"], "name": name}
        return True, None, m
    arn = params.get("stateMachineArn")
    if action in ("DescribeStateMachine", "UpdateStateMachine", "DeleteStateMachine"):
        if not isinstance(arn, str) or not arn.startswith("arn:aws:states:"):
            return False, "InvalidArn", m
        if arn not in m:
            return False, "StateMachineDoesNotExist", m
    if action == "UpdateStateMachine":
        role, d = params.get("roleArn"), params.get("definition")
        if d:
            try:
                dj = json.loads(d)
            except Exception:
                return False, "InvalidDefinition", m
        if not role and not d:
            return False, "MissingRequiredParameter", m
        if role:
            m[arn]["roleArn"] = role
        if d:
            m[arn]["definition"] = dj
        return True, None, m
    if action == "DeleteStateMachine":
        del m[arn]
        return True, None, m
    return True, None, m


def project(store):
    return {k: {"definition": v.get("definition"), "roleArn": v.get("roleArn"), "name": v.get("name")} for k, v in store.items()}


def sequences(seed=0, tier="quick", which=None, **_):
    n = 0
    samples = []
    all_ops = ops()
    by = {o[0]: o for o in all_ops}
    base = ["create-m1"]
    seqs = []
    others = [o[0] for o in all_ops if o[0] != "create-m1"]
    for a in others:
        seqs.append(base + [a, "describe-m1", "list"])
    for a, b in itertools.permutations(others, 2):
        if (hash((a, b)) + seed) % (3 if tier == "quick" else 1) == 0:
            seqs.append(base + [a, b, "describe-m1", "list"])
    for w in ([which] if which else ["asyncio", "blocking"]):
        for seq in seqs:
            c = Client(w)
            model = {}
            for label in seq:
                _, action, params = by[label]
                n += 1
                ok, err, newmodel = ref(model, label, action, params)
                code, body = c.call(action, params)
                case = {"front_end": w, "sequence": seq, "at": label}
                if code >= 500:
                    return {"failed": True, "evaluations": n, "input": case,
                            "detail": "[%s] %s after %s answered %s %r: no request may be answered with an internal error"
                                      % (w, label, seq[:seq.index(label)], code, body)}
                if ok != (code == 200):
                    return {"failed": True, "evaluations": n, "input": case,
                            "detail": "[%s] %s after %s answered %s %r, the reference model says %s"
                                      % (w, label, seq[:seq.index(label)], code, body, "success" if ok else ("error " + str(err)))}
                if not ok and err and isinstance(body, dict) and err not in str(body.get("__type")):
                    return {"failed": True, "evaluations": n, "input": case,
                            "detail": "[%s] %s answered error type %r, documented type is %s" % (w, label, body.get("__type"), err)}
                got = project(c.store())
                if got != newmodel:
                    return {"failed": True, "evaluations": n, "input": case,
                            "detail": "[%s] after %s (answered %s) the store is %s, the reference model is %s (an error must leave "
                                      "every record as it was; an update changes only the fields supplied)"
                                      % (w, label, code, json.dumps(got)[:400], json.dumps(newmodel)[:400])}
                if action == "DescribeStateMachine" and ok:
                    if json.loads(body["definition"]) != model[params["stateMachineArn"]]["definition"]:
                        return {"failed": True, "evaluations": n, "input": case,
                                "detail": "[%s] %s does not describe the stored definition back unchanged" % (w, label)}
                if action == "ListStateMachines":
                    arns = sorted(x["stateMachineArn"] for x in body.get("stateMachines", []))
                    if arns != sorted(newmodel):
                        return {"failed": True, "evaluations": n, "input": case,
                                "detail": "[%s] list enumerates %s, the live set is %s" % (w, arns, sorted(newmodel))}
                model = newmodel
            if len(samples) < 3 and n % 97 < 4:
                samples.append({"front_end": w, "sequence": seq})
    return {"failed": False, "evaluations": n, "distinct": len(seqs) * 2, "samples": samples}


BAD_BODIES = [("not-json", "{"), ("array", "[1]"), ("number", "5"), ("string", '"x"'), ("null", "null")]
BAD_PARAMS = [
    ("definition-not-a-string", "CreateStateMachine", {"name": "m9", "roleArn": ROLE, "definition": {"StartAt": "P"}}),
    ("definition-number", "UpdateStateMachine", {"stateMachineArn": ARN % "m1", "definition": 5}),
    ("logging-not-an-object", "CreateStateMachine", {"name": "m9", "roleArn": ROLE, "definition": json.dumps(DEF1), "loggingConfiguration": 7}),
    ("logging-bad-level", "UpdateStateMachine", {"stateMachineArn": ARN % "m1", "roleArn": ROLE2, "loggingConfiguration": {"level": "LOUD"}}),
    ("arn-number", "DescribeStateMachine", {"stateMachineArn": 5}),
    ("name-number", "CreateStateMachine", {"name": 5, "roleArn": ROLE, "definition": json.dumps(DEF1)}),
]


def no_internal_errors(seed=0, tier="quick", **_):
    n = 0
    for w in ("asyncio", "blocking"):
        c = Client(w)
        c.call("CreateStateMachine", {"name": "m1", "roleArn": ROLE, "definition": json.dumps(DEF1)})
        before = c.store()
        for action in ("CreateStateMachine", "DescribeStateMachine", "UpdateStateMachine", "DeleteStateMachine", "ListStateMachines"):
            for label, raw in BAD_BODIES:
                n += 1
                code, body = c.call(action, None, raw=raw)
                if code >= 500:
                    return {"failed": True, "evaluations": n, "input": {"front_end": w, "action": action, "body": raw},
                            "detail": "[%s] %s with body %s answered %s %r (internal error)" % (w, action, raw, code, body)}
        for label, action, params in BAD_PARAMS:
            n += 1
            code, body = c.call(action, params)
            if code >= 500:
                return {"failed": True, "evaluations": n, "input": {"front_end": w, "action": action, "params": params},
                        "detail": "[%s] %s (%s) answered %s %r (internal error)" % (w, action, label, code, body)}
            if code >= 400 and c.store() != before:
                return {"failed": True, "evaluations": n, "input": {"front_end": w, "action": action, "params": params},
                        "detail": "[%s] %s (%s) was refused with %s but changed the store" % (w, action, label, code)}
            before = c.store()
    return {"failed": False, "evaluations": n, "distinct": n, "exhaustive": True, "samples": [{"body": BAD_BODIES[0][1]}]}
