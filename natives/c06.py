"""Bounded stand-in for C06 (and the fan-out clauses of C01 / C03 / C05 / C08): failing branches of Parallel / Map
states through the REAL engine and task dispatcher under enumerated schedules."""
from natives import sim as S
from natives.explore import explore, merge
from natives.c05 import task, FN
from natives import known

BOOM = {"errorType": "Boom", "errorMessage": "it broke"}


def br(name, states):
    return {"StartAt": name, "States": states}


def scenarios():
    sc = {}
    # A: one branch fails, the sibling task is still outstanding / replies late / replied before
    sc["uncaught"] = dict(
        asl={"StartAt": "P", "States": {"P": {"Type": "Parallel", "End": True, "Branches": [
            br("F", {"F": task("bad")}), br("G", {"G": task("good")})]}}},
        tasks={"bad": lambda p, n: BOOM, "good": lambda p, n: {"ok": 1}},
        want=("FAILED", "Boom", None))
    # B: the Parallel catches the branch failure: Error Output placed into the state's ORIGINAL input
    sc["caught-resultpath"] = dict(
        asl={"StartAt": "P", "States": {
            "P": {"Type": "Parallel", "Next": "After", "Catch": [{"ErrorEquals": ["Boom"], "ResultPath": "$.err", "Next": "Recover"}],
                  "Branches": [br("F", {"F": task("bad")}), br("G", {"G": task("good")})]},
            "After": {"Type": "Pass", "End": True}, "Recover": {"Type": "Pass", "End": True}}},
        tasks={"bad": lambda p, n: BOOM, "good": lambda p, n: {"ok": 1}},
        want=("SUCCEEDED", None, {"x": 1, "err": {"Error": "Boom"}}))
    # C: a Fail state ends a branch
    sc["fail-state-in-branch"] = dict(
        asl={"StartAt": "P", "States": {"P": {"Type": "Parallel", "End": True, "Branches": [
            br("X", {"X": {"Type": "Fail", "Error": "Nope", "Cause": "because"}}), br("G", {"G": task("good")})]}}},
        tasks={"good": lambda p, n: {"ok": 1}},
        want=("FAILED", "Nope", None))
    # D: an error caught INSIDE a branch: the join must wait for the fallback task
    sc["caught-inside-branch"] = dict(
        asl={"StartAt": "P", "States": {"P": {"Type": "Parallel", "Next": "After", "Branches": [
            br("F", {"F": dict(task("bad", end=False, nxt="Never"), Catch=[{"ErrorEquals": ["States.ALL"], "Next": "Fallback"}]),
                     "Never": {"Type": "Pass", "End": True}, "Fallback": task("fallback")}),
            br("G", {"G": task("good")})]},
            "After": {"Type": "Pass", "End": True}}},
        tasks={"bad": lambda p, n: BOOM, "good": lambda p, n: {"ok": 1}, "fallback": lambda p, n: {"fb": 1}},
        want=("SUCCEEDED", None, [{"fb": 1}, {"ok": 1}]))
    # E: a Map iteration fails; the Map has Retry then Catch
    sc["map-retry-then-catch"] = dict(
        asl={"StartAt": "M", "States": {
            "M": {"Type": "Map", "ItemsPath": "$.items", "Next": "After",
                  "Retry": [{"ErrorEquals": ["Boom"], "IntervalSeconds": 0, "MaxAttempts": 1}],
                  "Catch": [{"ErrorEquals": ["States.ALL"], "ResultPath": "$.err", "Next": "Recover"}],
                  "ItemProcessor": br("W", {"W": task("work")})},
            "After": {"Type": "Pass", "End": True}, "Recover": {"Type": "Pass", "End": True}}},
        data={"items": [1, 2]},
        tasks={"work": lambda p, n: (BOOM if p == 2 else {"done": p})},
        want=("SUCCEEDED", None, {"items": [1, 2], "err": {"Error": "Boom"}}))
    # F: a sibling is in a Wait when the failure happens: the wait is cancelled and never completes
    sc["wait-sibling"] = dict(
        asl={"StartAt": "P", "States": {"P": {"Type": "Parallel", "End": True, "Branches": [
            br("F", {"F": task("bad")}),
            br("W", {"W": {"Type": "Wait", "Seconds": 30, "Next": "After"}, "After": task("after")})]}}},
        tasks={"bad": lambda p, n: BOOM, "after": lambda p, n: {"late": 1}},
        want=("FAILED", "Boom", None), forbid_calls=["after"])
    # G: one branch has caught an error inside the branch and waits for its fallback task when ANOTHER branch fails
    BOOM2 = {"errorType": "Boom2", "errorMessage": "second"}
    sc["caught-inside-then-sibling-fails"] = dict(
        asl={"StartAt": "P", "States": {"P": {"Type": "Parallel", "End": True, "Branches": [
            br("F", {"F": dict(task("bad", end=False, nxt="Never"), Catch=[{"ErrorEquals": ["States.ALL"], "Next": "Fallback"}]),
                     "Never": {"Type": "Pass", "End": True}, "Fallback": task("fallback")}),
            br("G", {"G": task("bad2")})]}}},
        tasks={"bad": lambda p, n: BOOM, "bad2": lambda p, n: BOOM2, "fallback": lambda p, n: {"fb": 1}},
        want=("FAILED", "Boom2", None))
    # H: a sibling task is in its Retry back-off when the other branch fails; it runs afterwards and fails again
    sc["retrying-sibling"] = dict(
        asl={"StartAt": "P", "States": {"P": {"Type": "Parallel", "End": True, "Branches": [
            br("R", {"R": dict(task("flaky"), Retry=[{"ErrorEquals": ["States.ALL"], "IntervalSeconds": 1, "MaxAttempts": 1}])}),
            br("G", {"G": task("bad")})]}}},
        tasks={"flaky": lambda p, n: {"errorType": "Oops", "errorMessage": "again"}, "bad": lambda p, n: BOOM},
        want=("FAILED", None, None))
    # I: nested Parallel states: the OUTER one fails while the inner one's branches are in flight; their queued events,
    # replies and terminal states must not carry the dead execution any further
    sc["nested-outer-fails"] = dict(
        asl={"StartAt": "P", "States": {"P": {"Type": "Parallel", "End": True, "Branches": [
            br("Q", {"Q": {"Type": "Parallel", "End": True, "Branches": [
                br("A1", {"A1": task("good", end=False, nxt="A2"), "A2": task("good2")}), br("B1", {"B1": task("good")})]}}),
            br("F", {"F": task("bad")})]}}},
        tasks={"bad": lambda p, n: BOOM, "good": lambda p, n: {"ok": 1}, "good2": lambda p, n: {"ok": 2}},
        want=("FAILED", "Boom", None))
    # J: nested Parallel states: the INNER one fails and is caught by its own Catch; the healthy outer one must still join
    # with the fallback's output in the inner state's position and the sibling's output untouched
    sc["nested-inner-caught"] = dict(
        asl={"StartAt": "P", "States": {"P": {"Type": "Parallel", "Next": "After", "Branches": [
            br("Q", {"Q": {"Type": "Parallel", "Next": "Done", "Catch": [{"ErrorEquals": ["States.ALL"], "Next": "Rec"}], "Branches": [
                br("A1", {"A1": task("bad")}), br("B1", {"B1": task("good", end=False, nxt="B2"), "B2": task("good2")})]},
                     "Done": {"Type": "Pass", "End": True}, "Rec": task("fallback")}),
            br("O", {"O": task("good")})]},
            "After": {"Type": "Pass", "End": True}}},
        tasks={"bad": lambda p, n: BOOM, "good": lambda p, n: {"ok": 1}, "good2": lambda p, n: {"ok": 2}, "fallback": lambda p, n: {"rec": 1}},
        want=("SUCCEEDED", None, [{"rec": 1}, {"ok": 1}]), exact_output=True)
    # K: a Map with MaxConcurrency fails in a batch that is not the last one: the iterations that were never started do not
    # count as outstanding, the execution fails once and releases its join state
    sc["map-batched-fails-early"] = dict(
        asl={"StartAt": "M", "States": {"M": {"Type": "Map", "ItemsPath": "$.items", "MaxConcurrency": 2, "End": True,
                                             "ItemProcessor": br("W", {"W": task("work")})}}},
        data={"items": [1, 2, 3, 4, 5]},
        tasks={"work": lambda p, n: (BOOM if p == 1 else {"done": p})},
        want=("FAILED", "Boom", None))
    # L: the same inside a Parallel branch, with a long-form (arn:aws:states:...:rpcmessage:invoke) sibling still waiting
    sc["long-form-sibling"] = dict(
        asl={"StartAt": "P", "States": {"P": {"Type": "Parallel", "End": True, "Branches": [
            br("F", {"F": task("bad")}),
            br("L", {"L": {"Type": "Task", "Resource": "arn:aws:states:local::rpcmessage:invoke",
                           "Parameters": {"FunctionName": FN + "good", "Payload": {"a": 1}}, "Next": "L2"}, "L2": task("good2")})]}}},
        tasks={"bad": lambda p, n: BOOM, "good": lambda p, n: {"ok": 1}, "good2": lambda p, n: {"ok": 2}},
        want=("FAILED", "Boom", None))
    # M: the Parallel's Catch handled one branch's failure; the sibling's task (not cancelled: known finding) later replies
    # with an ERROR of its own -- which must not fail the execution that already went on through the Catch
    sc["caught-then-sibling-errors"] = dict(
        asl={"StartAt": "P", "States": {
            "P": {"Type": "Parallel", "Next": "After", "Catch": [{"ErrorEquals": ["Boom"], "ResultPath": "$.err", "Next": "Recover"}],
                  "Branches": [br("F", {"F": task("bad")}), br("G", {"G": task("bad2")})]},
            "After": {"Type": "Pass", "End": True}, "Recover": {"Type": "Pass", "End": True}}},
        tasks={"bad": lambda p, n: BOOM, "bad2": lambda p, n: {"errorType": "Late", "errorMessage": "sibling failed later"}},
        want=None)
    return sc


def contains(got, want):
    """want is a sub-structure of got (Cause texts are not compared)"""
    if isinstance(want, dict):
        return isinstance(got, dict) and all(k in got and contains(got[k], v) for k, v in want.items())
    if isinstance(want, list):
        return isinstance(got, list) and len(got) == len(want) and all(contains(g, w) for g, w in zip(got, want))
    return got == want


def failures(seed=0, tier="quick", only=None, **_):
    depth = 4 if tier == "quick" else 7
    rdepth = 4 if tier == "quick" else 6
    results = []
    seen_known = set()
    seed0 = seed
    for name, sc in scenarios().items():
        if only and name != only:
            continue
        # scenarios with a listed known finding are explored with a fixed seed: the finding lists the failing histories
        seed = 0 if known.has_scenario("natives.c06", name) else seed0

        def mk(sc=sc):
            return S.Sim(sc["asl"], sc.get("data", {"x": 1}), tasks=sc["tasks"])

        def check(sim, trace, sc=sc, name=name):
            probs = S.generic_invariants(sim)
            rec = sim.record() or {}
            if sc["want"] is None:
                # outcome depends on which branch's reply is handled first: whichever failure the Parallel sees first decides
                # (Boom is caught -> SUCCEEDED with $.err.Error == Boom; Late is not -> FAILED with Late), and it decides ONCE
                first = [c[0] for c in sim.task_replies][:1] if hasattr(sim, "task_replies") else []
                ok = (rec.get("status") == "SUCCEEDED" and contains(sim.output(), {"err": {"Error": "Boom"}})) or \
                     (rec.get("status") == "FAILED" and rec.get("error") == "Late")
                if not ok:
                    probs.append("C06: outcome %s / %r / %r is neither the caught Boom nor the uncaught Late" % (
                        rec.get("status"), rec.get("error"), sim.output()))
                probs, hit = known.split("natives.c06", name, probs, sim=sim)
                seen_known.update(hit)
                return probs
            status, error, output = sc["want"]
            if rec.get("status") != status:
                probs.append("C06: status %s, expected %s" % (rec.get("status"), status))
            if error is not None and rec.get("error") != error:
                probs.append("C06: recorded error %r, the failing branch's error is %r" % (rec.get("error"), error))
            if output is not None and not contains(sim.output(), output):
                probs.append("C01/C06: output %r does not contain %r" % (sim.output(), output))
            if output is not None and sc.get("exact_output") and sim.output() != output:
                probs.append("C05/C06: output %r, the join of the surviving branches gives %r" % (sim.output(), output))
            for f in sc.get("forbid_calls", []):
                if any(c[0] == f for c in sim.task_calls):
                    probs.append("C06/C08: task %r ran although its branch was cancelled" % f)
            probs, hit = known.split("natives.c06", name, probs, sim=sim)
            seen_known.update(hit)
            return probs
        results.append((name, explore(mk, check, depth, seed=seed, extra=10)))
        results.append((name + "/reply-order", explore(mk, check, rdepth, seed=seed, extra=5, mode="replies-last")))
        results.append((name + "/replies", explore(mk, check, rdepth, width=2 if tier == "quick" else 3, seed=seed, extra=5, mode="replies")))
        if name.startswith("nested-") or name == "map-batched-fails-early":
            # deep interleavings: FIFO until the inner fan-out's tasks are outstanding, then every choice sequence from there
            for warm in (7, 9, 11):
                results.append(("%s/warm%d" % (name, warm), explore(mk, check, 4 if tier == "quick" else 5, width=4, seed=seed, extra=0,
                                                                    warm=warm)))
    out = merge(results, "failing branch")
    out["known"] = sorted(seen_known)
    return out
