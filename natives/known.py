"""Known findings for the simulation-based stand-ins: a finding names ONE scenario of ONE native module and the
problem signatures (prefixes) it explains there; only those are suppressed -- any other problem in the same scenario,
and the same signature in any other scenario, is still reported.  The file is read, never written."""
import importlib
import json
import os

VERIF = os.path.dirname(os.path.dirname(os.path.abspath(__file__)))


def load():
    try:
        return json.load(open(os.path.join(VERIF, "known_findings.json"))).get("findings", [])
    except Exception:
        return []


def has_scenario(module, scenario):
    """Is some finding tied to this scenario?  (Its exploration then uses a fixed seed, so that the listed histories are
    exactly the ones a run can reach.)"""
    return any((f.get("scenario") or {}).get("module") == module and (f.get("scenario") or {}).get("name") == scenario
               for f in load())


COLLECTED = {}          # tools/collect_known.py (development time): finding id -> set of schedule keys seen failing


def schedule_key(sim):
    """The history that failed: exploration mode + the choices actually taken (trailing FIFO choices dropped)."""
    tr = list(getattr(sim, "last_trace", []) or [])
    while tr and tr[-1] == 0:
        tr.pop()
    return "%s:%s" % (getattr(sim, "last_mode", "all"), ",".join(str(c) for c in tr))


def split(module, scenario, problems, sim=None):
    """-> (problems that are not explained by a listed finding, ids of the findings that explained some).
    A finding that lists "schedules" explains its signatures only in those histories (mode + choice sequence) of its
    scenario: the same symptom reached along any other history is reported."""
    base = scenario.split("/")[0]
    rest, hit = [], []
    collecting = bool(os.environ.get("KNOWN_COLLECT"))
    key = schedule_key(sim) if sim is not None else None
    for p in problems:
        ok = False
        for f in load():
            s = f.get("scenario")
            if s and s.get("module") == module and s.get("name") == base and any(p.startswith(x) for x in s.get("prefixes", [])):
                if collecting and key is not None:
                    COLLECTED.setdefault(f["id"], set()).add(key)
                elif s.get("schedules") is not None and key is not None and key not in s["schedules"]:
                    continue
                ok = True
                if f["id"] not in hit:
                    hit.append(f["id"])
        if not ok:
            rest.append(p)
    return rest, hit


def replay(module, scenario, mode, schedule, prefix, **_):
    """Witness of a known finding: replay one schedule of one scenario; failed <=> the listed problem still occurs."""
    from natives import sim as S
    mod = importlib.import_module(module)
    sc = mod.scenarios()[scenario]
    sm = S.Sim(sc["asl"], sc.get("data", {"x": 1}), tasks=sc["tasks"])
    sm.run(schedule, mode=mode)
    probs = S.generic_invariants(sm)
    hit = [p for p in probs if p.startswith(prefix)]
    return {"failed": bool(hit), "evaluations": 1, "detail": "; ".join(hit)[:600], "input": {"scenario": scenario, "schedule": schedule}}
