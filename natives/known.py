"""Known findings for the simulation-based stand-ins: a finding names ONE scenario of ONE native module and the
problem signatures (prefixes) it explains there; only those are suppressed -- any other problem in the same scenario,
and the same signature in any other scenario, is still reported.  The file is read, never written."""
import importlib
import json
import os

VERIF = os.path.dirname(os.path.dirname(os.path.abspath(__file__)))


def load():
    try:
        return json.load(open(os.path.join(VERIF, "known_findings.json"))).get("findings", [])
    except Exception:
        return []


def split(module, scenario, problems):
    """-> (problems that are not explained by a listed finding, ids of the findings that explained some)"""
    base = scenario.split("/")[0]
    rest, hit = [], []
    for p in problems:
        ok = False
        for f in load():
            s = f.get("scenario")
            if s and s.get("module") == module and s.get("name") == base and any(p.startswith(x) for x in s.get("prefixes", [])):
                ok = True
                if f["id"] not in hit:
                    hit.append(f["id"])
        if not ok:
            rest.append(p)
    return rest, hit


def replay(module, scenario, mode, schedule, prefix, **_):
    """Witness of a known finding: replay one schedule of one scenario; failed <=> the listed problem still occurs."""
    from natives import sim as S
    mod = importlib.import_module(module)
    sc = mod.scenarios()[scenario]
    sm = S.Sim(sc["asl"], sc.get("data", {"x": 1}), tasks=sc["tasks"])
    sm.run(schedule, mode=mode)
    probs = S.generic_invariants(sm)
    hit = [p for p in probs if p.startswith(prefix)]
    return {"failed": bool(hit), "evaluations": 1, "detail": "; ".join(hit)[:600], "input": {"scenario": scenario, "schedule": schedule}}
