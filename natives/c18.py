"""Bounded stand-in for C18 (never counted as proved): the bundled validator on mutated machines -- it must report
problems, never raise -- and validator-accepted machines through the REAL engine: none may fail for being an illegal
state machine."""
import copy
import json

FN = "arn:aws:rpcmessage:local::function:f"

CORPUS = {
    "pass-choice": {"StartAt": "A", "States": {
        "A": {"Type": "Pass", "Next": "C"},
        "C": {"Type": "Choice", "Choices": [{"Variable": "$.x", "NumericEquals": 1, "Next": "W"}], "Default": "S"},
        "W": {"Type": "Wait", "Seconds": 1, "Next": "S"}, "S": {"Type": "Succeed"}}},
    "task-fail": {"StartAt": "T", "States": {
        "T": {"Type": "Task", "Resource": FN, "Retry": [{"ErrorEquals": ["States.ALL"]}],
              "Catch": [{"ErrorEquals": ["States.ALL"], "Next": "F"}], "End": True},
        "F": {"Type": "Fail", "Error": "E", "Cause": "c"}}},
    "wait-timestamp": {"StartAt": "W", "States": {"W": {"Type": "Wait", "Timestamp": "2016-03-14T01:59:00Z", "End": True}}},
    "parallel-map": {"StartAt": "P", "States": {
        "P": {"Type": "Parallel", "Next": "M", "Branches": [{"StartAt": "B1", "States": {"B1": {"Type": "Pass", "End": True}}},
                                                            {"StartAt": "B2", "States": {"B2": {"Type": "Pass", "End": True}}}]},
        "M": {"Type": "Map", "ItemsPath": "$", "ItemProcessor": {"StartAt": "I", "States": {"I": {"Type": "Pass", "End": True}}}, "End": True}}},
}
VALUES = [None, 5, -1.5, "", "x", True, [], {}, [1], {"a": 1}]


def paths(node, prefix=()):
    yield prefix
    if isinstance(node, dict):
        for k, v in node.items():
            for p in paths(v, prefix + (k,)):
                yield p
    elif isinstance(node, list):
        for i, v in enumerate(node):
            for p in paths(v, prefix + (i,)):
                yield p


def mutate(doc, path, how, value=None):
    d = copy.deepcopy(doc)
    if not path:
        return value if how == "set" else None
    cur = d
    for k in path[:-1]:
        cur = cur[k]
    if how == "set":
        cur[path[-1]] = value
    elif how == "del":
        del cur[path[-1]]
    return d


def mutants(doc):
    for p in paths(doc):
        if not p:
            continue
        yield ("del", p, None), mutate(doc, p, "del")
        for v in VALUES:
            yield ("set", p, v), mutate(doc, p, "set", v)
    # renamed / retargeted / duplicated states
    if isinstance(doc.get("States"), dict):
        names = list(doc["States"])
        d = copy.deepcopy(doc)
        d["StartAt"] = "NoSuchState"
        yield ("retarget-startat", (), None), d
        for n in names:
            d = copy.deepcopy(doc)
            d["States"][n + "2"] = d["States"].pop(n)
            yield ("rename", (n,), None), d
    for v in VALUES:
        yield ("whole-document", (), v), v


def validator_total(seed=0, tier="quick", **_):
    import os
    import sys
    for p in list(sys.path):
        if p.endswith("asl-workflow-engine/py"):
            break
    from statelint.statelint import StateLint
    lint = StateLint()
    n = 0
    samples = []
    for name, doc in CORPUS.items():
        for what, m in mutants(doc):
            n += 1
            try:
                problems = lint.validate(copy.deepcopy(m))
            except Exception as e:
                return {"failed": True, "evaluations": n, "input": {"machine": name, "mutation": list(map(str, what)), "definition": m},
                        "detail": "StateLint.validate raised %s: %s on %s mutated by %s (it must report problems, not raise)"
                                  % (type(e).__name__, e, name, what)}
            if not isinstance(problems, list):
                return {"failed": True, "evaluations": n, "input": {"machine": name}, "detail": "validate returned %r" % (problems,)}
            if len(samples) < 3 and n % 211 == 5:
                samples.append({"machine": name, "mutation": str(what), "problems": len(problems)})
    return {"failed": False, "evaluations": n, "distinct": n, "exhaustive": True, "samples": samples}


DUP = {"StartAt": "P", "States": {"P": {"Type": "Parallel", "End": True, "Branches": [
    {"StartAt": "Done", "States": {"Done": {"Type": "Pass", "End": True}}},
    {"StartAt": "Done", "States": {"Done": {"Type": "Pass", "End": True}}}]}}}


def accepted_machines_run(seed=0, tier="quick", **_):
    """Every machine the validator accepts (corpus + single mutants) is run through the real engine: it must not fail
    for being an illegal state machine; and known-illegal shapes must be reported by the validator."""
    from statelint.statelint import StateLint
    from natives import sim as S
    lint = StateLint()
    n = 0
    accepted = 0
    if not lint.validate(copy.deepcopy(DUP)):
        return {"failed": True, "evaluations": 1, "input": {"definition": DUP},
                "detail": "the validator accepts a machine with the state name 'Done' in two sibling branches; the engine fails it "
                          "at run time (non-unique state: Illegal State Machine)"}
    for name, doc in CORPUS.items():
        cands = [(("original", (), None), doc)] + [(w, m) for w, m in mutants(doc) if isinstance(m, dict) and w[0] in ("del", "rename", "retarget-startat")]
        for what, m in cands:
            n += 1
            try:
                if lint.validate(copy.deepcopy(m)):
                    continue
            except Exception:
                continue                 # totality is the other check
            accepted += 1
            sim = S.Sim(m, {"x": 1}, tasks={"f": lambda p, k: {"ok": 1}})
            sim.run(limit=300)
            rec = sim.record() or {}
            blob = json.dumps([rec.get("cause"), sim.crashes])
            if "Illegal State Machine" in blob or "illegal Type" in blob or sim.crashes:
                return {"failed": True, "evaluations": n, "input": {"machine": name, "mutation": str(what), "definition": m},
                        "detail": "validator-accepted machine failed at run time as illegal: %s %s" % (rec.get("error"), blob[:300])}
    return {"failed": False, "evaluations": n, "distinct": accepted, "samples": [{"accepted_and_run": accepted}]}
