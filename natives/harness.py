"""A broker-free harness around the REAL StateEngine (same shape as the repository's own unit tests use):
a synchronous event dispatcher stub whose publish() feeds notify() directly."""
import json
import logging
import os
import tempfile

logging.disable(logging.CRITICAL)


class EventDispatcherStub(object):
    def __init__(self, state_engine):
        self.state_engine = state_engine
        self.state_engine.event_dispatcher = self
        self.message_count = -1
        self.last_event = None
        self.published = []
        self.acked = []
        self.broadcasts = []

    def set_timeout(self, callback, delay):
        callback()

    def clear_timeout(self, timeout_id):
        pass

    def dispatch(self, message):
        self.message_count += 1
        self.state_engine.notify(json.loads(message), self.message_count)

    def acknowledge(self, id):
        self.acked.append(id)

    def publish(self, item, **kw):
        self.last_event = item
        self.published.append(json.loads(json.dumps(item)))
        self.dispatch(json.dumps(item))

    def broadcast(self, subject, message, carrier_properties=None):
        self.broadcasts.append((subject, json.loads(json.dumps(message))))


def new_engine():
    from asl_workflow_engine.state_engine import StateEngine
    from natives.sim import _tmp_root
    tmp = tempfile.mkdtemp(dir=_tmp_root())
    config = {"state_engine": {"store_url": os.path.join(tmp, "ASL_store.json"), "execution_ttl": 500}}
    engine = StateEngine(config)
    return engine, EventDispatcherStub(engine)


def run(engine, dispatcher, asl, data, name="demo"):
    dispatcher.last_event = None
    dispatcher.published, dispatcher.acked, dispatcher.broadcasts = [], [], []
    context = {"StateMachine": {"Id": "arn:aws:states:local:0123456789:stateMachine:" + name, "Definition": asl}}
    dispatcher.dispatch(json.dumps({"data": data, "context": context}))
    return dispatcher
