"""
natives.run -- execute something on the REAL code under /venv/bin/python and print a JSON verdict.

    /venv/bin/python -m natives.run '<json request>'

request = {"cmd": "lemma",    "path": "/verif/lemmas/x.py", "func": "f", "args": {...}, "requires": [...]}
        | {"cmd": "contract", "module": "asl_workflow_engine.arn", "func": "parse_arn", "args": {...},
           "requires": [...], "ensures": [[label, text], ...], "raises": {"IndexError": "cond" | null}}
        | {"cmd": "custom",   "func": "natives.C17:some_function", "args": {...}}
"""
import importlib
import importlib.util
import json
import os
import sys
import traceback

VERIF = os.path.dirname(os.path.dirname(os.path.abspath(__file__)))
REPO = os.environ.get("LSF_REPO", "/repo")
PYROOT = os.path.join(REPO, "asl-workflow-engine", "py")
for p in (VERIF, PYROOT):
    if p not in sys.path:
        sys.path.insert(0, p)

from pyvc import native_spec as NS   # noqa: E402


def load_path(path, name="_lemma_mod"):
    spec = importlib.util.spec_from_file_location(name, path)
    mod = importlib.util.module_from_spec(spec)
    spec.loader.exec_module(mod)
    return mod


def run_lemma(req):
    mod = load_path(req["path"])
    f = getattr(mod, req["func"])
    args = req["args"]
    for text in req.get("requires", []):
        if NS.uses_skipped(text):
            continue
        if not NS.eval_clause(text, args):
            return {"failed": False, "vacuous": True, "detail": "input does not satisfy requires: " + text}
    try:
        f(**args)
    except AssertionError as e:
        return {"failed": True, "detail": "AssertionError: %s" % (e,), "trace": traceback.format_exc()[-1500:]}
    except Exception as e:
        return {"failed": True, "detail": "%s: %s" % (type(e).__name__, e), "trace": traceback.format_exc()[-1500:]}
    return {"failed": False}


def resolve(module, func):
    mod = importlib.import_module(module)
    obj = mod
    for part in func.split("."):
        obj = getattr(obj, part)
    return obj


def run_contract(req):
    f = resolve(req["module"], req["func"])
    args = req["args"]
    for text in req.get("requires", []):
        if NS.uses_skipped(text):
            continue
        if not NS.eval_clause(text, args):
            return {"failed": False, "vacuous": True, "detail": "input does not satisfy requires: " + text}
    old = NS.snapshot(args)
    raises = req.get("raises", {})
    try:
        result = f(**args)
    except Exception as e:
        cls = type(e).__name__
        names = [c.__name__ for c in type(e).__mro__]
        allowed = [k for k in raises if k in names]
        if not allowed:
            return {"failed": True, "clause": "xpost/no-" + cls, "detail": "%s: %s" % (cls, e)}
        cond = raises[allowed[0]]
        if cond is not None and not NS.uses_skipped(cond) and not NS.eval_clause(cond, old):
            return {"failed": True, "clause": "xpost/%s-only-if" % cls, "detail": "%s raised although %s is false" % (cls, cond)}
        return {"failed": False, "raised": cls}
    for cls, cond in raises.items():
        if cond is not None and not NS.uses_skipped(cond) and NS.eval_clause(cond, old):
            return {"failed": True, "clause": "xpost/%s-if" % cls, "detail": "no %s although %s" % (cls, cond)}
    env = dict(args)
    env["result"] = result
    for label, text in req.get("ensures", []):
        if NS.uses_skipped(text):
            continue
        try:
            ok = NS.eval_clause(text, env, old)
        except Exception as e:
            return {"failed": True, "clause": "post/" + label, "detail": "clause raised %s: %s" % (type(e).__name__, e),
                    "result": repr(result)[:500]}
        if not ok:
            return {"failed": True, "clause": "post/" + label, "detail": "clause false: " + text,
                    "result": repr(result)[:500]}
    return {"failed": False, "result": repr(result)[:300]}


def run_custom(req):
    modname, fn = req["func"].split(":")
    mod = importlib.import_module(modname)
    return getattr(mod, fn)(**req.get("args", {}))


def main():
    req = json.loads(sys.argv[1]) if not sys.argv[1].startswith("@") else json.load(open(sys.argv[1][1:]))
    try:
        if req["cmd"] == "lemma":
            out = run_lemma(req)
        elif req["cmd"] == "contract":
            out = run_contract(req)
        else:
            out = run_custom(req)
    except Exception as e:
        out = {"error": "%s: %s" % (type(e).__name__, e), "trace": traceback.format_exc()[-3000:]}
    sys.stdout.write("\n@@NATIVE@@" + json.dumps(out, default=repr) + "\n")


if __name__ == "__main__":
    main()
