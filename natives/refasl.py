"""
A small reference interpreter of the Amazon States Language (https://states-language.net/spec.html), written from
the specification text, for the sub-language the bounded C01 stand-in generates: Pass, Task, Choice, Wait, Succeed,
Fail, Parallel, Map; InputPath / Parameters / ResultSelector / ResultPath / OutputPath with definite reference paths
($, $.a.b, $.a[0], $$.x.y); Retry / Catch.  It is value-level and sequential: tasks are functions of their input.
"""
import copy


class Failed(Exception):
    def __init__(self, error, cause=None):
        Exception.__init__(self, error)
        self.error, self.cause = error, cause


def tokens(path):
    out, cur, i = [], "", 1
    while i < len(path):
        c = path[i]
        if c == ".":
            if cur:
                out.append(cur)
            cur = ""
        elif c == "[":
            if cur:
                out.append(cur)
            j = path.index("]", i)
            out.append(int(path[i + 1:j]))
            cur = ""
            i = j
        else:
            cur += c
        i += 1
    if cur:
        out.append(cur)
    return out


def read(doc, ctx, path):
    if path is None:
        return {}
    if path.startswith("$$"):
        doc, path = ctx, path[1:]
    cur = doc
    for t in tokens(path):
        if isinstance(t, int):
            if not isinstance(cur, list) or t >= len(cur):
                raise Failed("States.Runtime")
            cur = cur[t]
        else:
            if not isinstance(cur, dict) or t not in cur:
                raise Failed("States.Runtime")
            cur = cur[t]
    return cur


def template(t, doc, ctx):
    if isinstance(t, dict):
        out = {}
        for k, v in t.items():
            if isinstance(v, (dict, list)):
                out[k] = template(v, doc, ctx)
            elif k.endswith(".$"):
                out[k[:-2]] = copy.deepcopy(read(doc, ctx, v))
            else:
                out[k] = v
        return out
    if isinstance(t, list):
        return [template(x, doc, ctx) if isinstance(x, (dict, list)) else x for x in t]
    return t


def place(doc, result, path):
    if path is None:
        return doc
    if path == "$":
        return result
    toks = tokens(path)
    out = copy.deepcopy(doc) if isinstance(doc, dict) else {}
    if not isinstance(doc, dict):
        raise Failed("States.ResultPathMatchFailure")
    cur = out
    for t in toks[:-1]:
        if t not in cur or not isinstance(cur[t], dict):
            cur[t] = {} if t not in cur else cur[t]
            if not isinstance(cur[t], dict):
                raise Failed("States.ResultPathMatchFailure")
        cur = cur[t]
    cur[toks[-1]] = copy.deepcopy(result)
    return out


def matches(rule, e):
    ee = rule["ErrorEquals"]
    return e in ee or ee == ["States.ALL"]


UNRECOVERABLE = ("States.Runtime",)


class Machine(object):
    def __init__(self, tasks):
        self.tasks = tasks          # name -> f(input, nth call) -> value | {"errorType":...}
        self.counts = {}

    def call(self, name, payload):
        n = self.counts.get(name, 0)
        self.counts[name] = n + 1
        r = self.tasks[name](copy.deepcopy(payload), n)
        if isinstance(r, dict) and r.get("errorType"):
            raise Failed(r["errorType"], r.get("errorMessage"))
        return r

    def choice(self, rule, doc, ctx):
        if "And" in rule:
            return all(self.choice(r, doc, ctx) for r in rule["And"])
        if "Or" in rule:
            return any(self.choice(r, doc, ctx) for r in rule["Or"])
        if "Not" in rule:
            return not self.choice(rule["Not"], doc, ctx)
        try:
            v = read(doc, ctx, rule["Variable"])
            present = True
        except Failed:
            v, present = None, False
        if "IsPresent" in rule:
            return present == rule["IsPresent"]
        if not present:
            return False
        num = lambda x: isinstance(x, (int, float)) and not isinstance(x, bool)
        if "NumericEquals" in rule:
            return num(v) and v == rule["NumericEquals"]
        if "NumericGreaterThan" in rule:
            return num(v) and v > rule["NumericGreaterThan"]
        if "StringEquals" in rule:
            return isinstance(v, str) and v == rule["StringEquals"]
        if "BooleanEquals" in rule:
            return isinstance(v, bool) and v == rule["BooleanEquals"]
        raise KeyError(rule)

    def run(self, asl, data, ctx=None):
        """-> ('SUCCEEDED', output) | ('FAILED', error name)"""
        try:
            return "SUCCEEDED", self.states(asl, data, ctx or {})
        except Failed as f:
            return "FAILED", f.error

    def states(self, asl, data, ctx):
        name = asl["StartAt"]
        while True:
            st = asl["States"][name]
            nxt, data = self.state_with_handlers(st, data, ctx)
            if nxt is None:
                return data
            name = nxt

    def state_with_handlers(self, st, raw, ctx):
        count = 0
        while True:
            try:
                return self.state(st, raw, ctx)
            except Failed as f:
                if f.error in UNRECOVERABLE or st["Type"] not in ("Task", "Parallel", "Map"):
                    raise
                r = next((r for r in st.get("Retry", []) if matches(r, f.error)), None)
                if r is not None and count < r.get("MaxAttempts", 3):
                    count += 1
                    continue
                c = next((c for c in st.get("Catch", []) if matches(c, f.error)), None)
                if c is None:
                    raise
                eo = {"Error": f.error}
                if f.cause is not None:
                    eo["Cause"] = f.cause
                return c["Next"], place(raw, eo, c.get("ResultPath", "$"))

    def finish(self, st, raw, result, ctx, selector=True):
        if selector and "ResultSelector" in st:
            result = template(st["ResultSelector"], result, ctx)
        out = place(raw, result, st.get("ResultPath", "$"))
        out = read(out, ctx, st.get("OutputPath", "$"))
        return (None if st.get("End") else st["Next"]), out

    def state(self, st, raw, ctx):
        t = st["Type"]
        if t == "Fail":
            raise Failed(st.get("Error", "Unspecified"), st.get("Cause"))
        inp = read(raw, ctx, st.get("InputPath", "$"))
        if t == "Succeed":
            return None, read(inp, ctx, st.get("OutputPath", "$"))
        if t == "Wait":
            return (None if st.get("End") else st["Next"]), read(inp, ctx, st.get("OutputPath", "$"))
        if t == "Choice":
            out = read(inp, ctx, st.get("OutputPath", "$"))
            for rule in st["Choices"]:
                if self.choice(rule, inp, ctx):
                    return rule["Next"], out
            if "Default" in st:
                return st["Default"], out
            raise Failed("States.NoChoiceMatched")
        params = template(st["Parameters"], inp, ctx) if "Parameters" in st else inp
        if t == "Pass":
            return self.finish(st, raw, st.get("Result", params), ctx, selector=False)
        if t == "Task":
            return self.finish(st, raw, self.call(st["Resource"].split(":")[-1], params), ctx)
        if t == "Parallel":
            res = [self.states(b, copy.deepcopy(params), ctx) for b in st["Branches"]]
            return self.finish(st, raw, res, ctx)
        if t == "Map":
            items = read(inp, ctx, st.get("ItemsPath", "$"))
            proc = st.get("ItemProcessor") or st.get("Iterator")
            res = []
            for i, item in enumerate(items):
                sel = st.get("ItemSelector", st.get("Parameters") if "Iterator" in st else None)
                if sel is not None:
                    c2 = dict(ctx, Map={"Item": {"Index": i, "Value": item}})
                    item_in = template(sel, inp, c2)
                else:
                    item_in = item
                res.append(self.states(proc, copy.deepcopy(item_in), ctx))
            return self.finish(st, raw, res, ctx)
        raise KeyError(t)
