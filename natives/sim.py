"""
A deterministic, broker-free simulation around the REAL StateEngine (and its real TaskDispatcher object, whose
execute_task is scripted): a queue of published events, virtual-time timers, and pending task replies.  A
*schedule* is a list of integers choosing, at each step, which enabled action runs next (delivery of the oldest
queued event of some execution branch, a due timer, or a task reply).  Bounded stand-ins enumerate schedules; each
schedule is replayed from scratch on a fresh engine, so a failing schedule is a concrete, replayable witness.
"""
import heapq
import json
import logging
import os
import tempfile

logging.disable(logging.CRITICAL)

NOREPLY = object()     # a scripted worker that never answers (the task runs into its timeout)


class FakeMessage(object):
    """Stands in for the messaging module's Message (same constructor and attributes the engine uses)."""
    def __init__(self, body=None, properties=None, content_type=None, subject=None, reply_to=None, correlation_id=None,
                 expiration=None, mandatory=False, **kw):
        self.body = body.encode("utf8") if isinstance(body, str) else body
        self.properties = properties if properties is not None else {}
        self.content_type, self.subject, self.reply_to = content_type, subject, reply_to
        self.correlation_id, self.expiration, self.mandatory = correlation_id, expiration, mandatory
        self.acked = 0
        self.sim = None

    def acknowledge(self, multiple=False):
        self.acked += 1
        if self.sim is not None:
            self.sim.reply_acks.append((self.correlation_id, multiple))


class _ReplyTo(object):
    name = "asl_workflow_reply_to-sim"


_TMP_ROOT = []


def _tmp_root():
    """One scratch directory per process for the stores of all simulated engines, removed when the process exits
    (a run builds thousands of engines; nothing may be left under /tmp)."""
    if not _TMP_ROOT:
        import atexit
        import shutil
        d = tempfile.mkdtemp(prefix="lsfsim_")
        _TMP_ROOT.append(d)
        atexit.register(shutil.rmtree, d, True)
    return _TMP_ROOT[0]


class Sim(object):
    def __init__(self, asl, data, tasks=None, sm_type="STANDARD", name="m", extra_machines=None):
        from asl_workflow_engine.state_engine import StateEngine
        import asl_workflow_engine.event_dispatcher as ED
        ED.Message = FakeMessage                 # what EventDispatcher.__init__ would bind from the messaging module
        self.tmp = tempfile.mkdtemp(prefix="s", dir=_tmp_root())
        cwd = os.getcwd()
        os.chdir(self.tmp)
        try:
            self.engine = StateEngine({"state_engine": {"store_url": os.path.join(self.tmp, "ASL_store.json"),
                                                        "execution_ttl": 500},
                                       "event_queue": {"orphaned_response_retention_ms": 1000}})
        finally:
            os.chdir(cwd)
        self.engine.event_dispatcher = self
        self.now = 0.0
        self.seq = 0
        self.queue = []            # (message id, json text)
        self.timers = []           # (due, seq, callback)
        self.cleared = set()
        self.requests = []         # outstanding task requests: FakeMessage sent through the producer
        self.sent = []             # every request ever sent
        self.reply_acks = []
        self.unacknowledged_messages = {}
        self.acks = []
        self.double_acks = []
        self.broadcasts = []
        self.published = []
        self.task_calls = []       # (function name, payload, virtual time)
        self.tasks = tasks or {}   # function name -> f(payload, nth call) -> reply JSON value | NOREPLY
        self.task_counts = {}
        self.crashes = []
        self.eager_timers = False  # True: a pending timer may fire at any step (deadline races)
        td = self.engine.task_dispatcher
        td.producer = self
        td.reply_to = _ReplyTo()
        self.sm_arn = "arn:aws:states:local:0123456789:stateMachine:" + name
        self.ex_arn = "arn:aws:states:local:0123456789:execution:%s:run1" % name
        machines = dict(extra_machines or {})
        machines[name] = (asl, sm_type)
        for n, (a, t) in machines.items():
            arn = "arn:aws:states:local:0123456789:stateMachine:" + n
            self.engine.asl_store[arn] = {
                "creationDate": 0, "definition": a, "name": n, "roleArn": "arn:aws:iam:::role/dummy-role/dummy",
                "stateMachineArn": arn, "updateDate": 0, "status": "ACTIVE", "type": t}
        self.publish({"data": data, "context": {"StateMachine": {"Id": self.sm_arn},
                                                "Execution": {"Id": self.ex_arn, "Name": "run1"}}})

    # ---- producer interface used by the task dispatcher
    def send(self, message, **kw):
        message.sim = self
        self.sent.append(message)
        self.requests.append(message)
        payload = json.loads(message.body.decode("utf8")) if message.body else None
        self.task_calls.append((message.subject, payload, self.now))

    # ---- EventDispatcher interface used by the engine
    def publish(self, item, **kw):
        self.seq += 1
        self.published.append(json.loads(json.dumps(item)))
        self.queue.append(("m%d" % self.seq, json.dumps(item)))

    def acknowledge(self, id):
        if id in self.unacknowledged_messages:
            del self.unacknowledged_messages[id]
            self.acks.append(id)
        else:
            self.double_acks.append(id)

    def broadcast(self, subject, message, carrier_properties=None):
        self.broadcasts.append((subject, json.loads(json.dumps(message))))

    def set_timeout(self, callback, delay):
        self.seq += 1
        heapq.heappush(self.timers, (self.now + float(delay), self.seq, callback))
        return self.seq

    def clear_timeout(self, timeout_id):
        self.cleared.add(timeout_id)

    # ---- scheduling
    def enabled(self):
        acts = []
        for i in range(len(self.queue)):
            acts.append(("deliver", i))
        for i in range(len(self.requests)):
            if self._reply_for(self.requests[i], peek=True) is not NOREPLY:
                acts.append(("reply", i))
        live = [t for t in self.timers if t[1] not in self.cleared]
        # virtual time only advances when nothing else can happen (workers answer before deadlines unless scripted
        # not to); timers that are already due compete with the other actions
        if live and (min(live)[0] <= self.now or not acts or self.eager_timers):
            acts.append(("timer", 0))
        return acts

    def step(self, choice):
        acts = self.enabled()
        if not acts:
            return False
        kind, i = acts[choice % len(acts)]
        try:
            self._do(kind, i)
        except Exception as e:          # an exception escaping the engine / dispatcher is an observation, not a harness error
            import traceback
            self.crashes.append("%s: %s: %s @ %s" % (kind, type(e).__name__, e, traceback.format_exc().strip().split("\n")[-3].strip()[:120]))
        return True

    def _do(self, kind, i):
        if kind == "deliver":
            mid, text = self.queue.pop(i)
            self.unacknowledged_messages[mid] = text
            self.engine.notify(json.loads(text), mid)
        elif kind == "reply":
            req = self.requests.pop(i)
            reply = self._reply_for(req)
            body = reply if isinstance(reply, (bytes, str)) else json.dumps(reply)
            m = FakeMessage(body, correlation_id=req.correlation_id, subject=req.reply_to)
            m.sim = self
            self.engine.task_dispatcher.handle_rpcmessage_response(m)
        else:
            while self.timers:
                due, seq, cb = heapq.heappop(self.timers)
                if seq in self.cleared:
                    continue
                self.now = max(self.now, due)
                cb()
                break

    def _reply_for(self, req, peek=False):
        name = req.subject
        f = self.tasks.get(name)
        payload = json.loads(req.body.decode("utf8")) if req.body else None
        if f is None:
            return payload
        key = id(req)
        cache = self.__dict__.setdefault("_reply_cache", {})
        if key not in cache:
            n = self.task_counts.get(name, 0)
            self.task_counts[name] = n + 1
            cache[key] = f(payload, n)
        return cache[key]

    def run(self, schedule=(), limit=2000, mode="all"):
        """Follow `schedule`, then FIFO until quiescent.
        mode "all": one choice per step among all enabled actions.
        mode "replies": a choice is consumed only where a task reply competes with something else (another reply, an
        event delivery, a due timer); the candidates are the replies plus the first other action; everything else FIFO."""
        trace = []
        self.last_mode, self.last_trace = mode, trace
        if mode == "all":
            for c in schedule:
                if not self.enabled():
                    break
                trace.append(c % len(self.enabled()))
                self.step(c)
            while self.enabled() and limit > 0:
                limit -= 1
                trace.append(0)
                self.step(0)
            return trace
        sch = list(schedule)
        while self.enabled() and limit > 0:
            limit -= 1
            acts = self.enabled()
            reps = [i for i, a in enumerate(acts) if a[0] == "reply"]
            others = [i for i, a in enumerate(acts) if a[0] != "reply"]
            if mode == "replies-last" and others:
                self.step(others[0])          # everything else runs first; choices are among the replies only
                continue
            cands = reps + others[:1]
            if reps and len(cands) >= 2:
                c = sch.pop(0) if sch else 0
                pick = cands[c % len(cands)]
                trace.append(c % len(cands))
            else:
                pick = 0
            self.step(pick)
        return trace

    # ---- observations
    def record(self):
        return self.engine.executions.get(self.ex_arn)

    def history(self):
        return list(self.engine.execution_history.get(self.ex_arn, []))

    def terminal_notifications(self):
        return [m for s, m in self.broadcasts if m["detail"]["status"] in ("SUCCEEDED", "FAILED")
                and m["detail"]["executionArn"] == self.ex_arn]

    def output(self):
        r = self.record()
        return json.loads(r["output"]) if r and isinstance(r.get("output"), str) else None


def generic_invariants(sim):
    """Properties that must hold at quiescence of ANY run (C02, C03, C09, C11); returns a list of problems."""
    probs = []
    for c in sim.crashes:
        probs.append("C03/C18: an exception escaped the engine: " + c)
    rec = sim.record()
    term = sim.terminal_notifications()
    running = [m for s, m in sim.broadcasts if m["detail"]["status"] == "RUNNING"]
    if len(running) != 1:
        probs.append("C02: %d RUNNING notifications" % len(running))
    if len(term) != 1:
        probs.append("C02: %d terminal notifications (%s)" % (len(term), [m["detail"]["status"] for m in term]))
    if rec is None:
        probs.append("C02: no execution record")
    else:
        if rec["status"] not in ("SUCCEEDED", "FAILED"):
            probs.append("C02: execution not terminal at quiescence: %s" % rec["status"])
        if (rec["stopDate"] is None) != (rec["status"] == "RUNNING"):
            probs.append("C02: stopDate/status mismatch")
        if (rec.get("output") is not None) != (rec["status"] == "SUCCEEDED"):
            probs.append("C02: output set iff SUCCEEDED violated")
        if ("error" in rec) != (rec["status"] == "FAILED"):
            probs.append("C02: error set iff FAILED violated")
        if term and term[-1]["detail"]["status"] != rec["status"]:
            probs.append("C11: last notification %s but record %s" % (term[-1]["detail"]["status"], rec["status"]))
    if sim.unacknowledged_messages:
        probs.append("C03: unacknowledged at quiescence: %s" % sorted(sim.unacknowledged_messages))
    # (a second acknowledge() of the same id is a no-op in the real EventDispatcher: not a problem by itself)
    if sim.ex_arn in sim.engine.branch_metadata:
        probs.append("C03: branch_metadata left for the execution")
    td = sim.engine.task_dispatcher
    if td.cancellers:
        probs.append("C03: cancellers left: %s" % list(td.cancellers))
    hist = sim.history()
    for i, e in enumerate(hist):
        if e["id"] != i + 1 or e["previousEventId"] != i:
            probs.append("C09: history numbering broken at %d" % i)
            break
    if hist:
        if hist[0]["type"] != "ExecutionStarted":
            probs.append("C09: history does not start with ExecutionStarted")
        ends = [e for e in hist if e["type"] in ("ExecutionSucceeded", "ExecutionFailed")]
        if len(ends) != 1 or hist[-1]["type"] not in ("ExecutionSucceeded", "ExecutionFailed"):
            probs.append("C09: terminal history events: %s, last is %s" % ([e["type"] for e in ends], hist[-1]["type"]))
        elif rec is not None and (hist[-1]["type"] == "ExecutionSucceeded") != (rec["status"] == "SUCCEEDED"):
            probs.append("C09/C11: terminal history event disagrees with the record")
    return probs
