"""Bounded stand-in for C15 (never counted as proved): child executions launched by a Task through the states
service integrations, on the REAL engine + task dispatcher (fake broker), over the integration forms and child
outcomes."""
from natives import sim as S

SM = "arn:aws:states:local:0123456789:stateMachine:"
DOC = {"ExecutionArn", "Input", "Name", "Output", "StartDate", "StateMachineArn", "Status", "StopDate"}


def parent(resource, child="child", extra=None):
    params = {"StateMachineArn": SM + child, "Input": {"q": 7}}
    params.update(extra or {})
    return {"StartAt": "Call", "States": {"Call": {"Type": "Task", "Resource": resource, "Parameters": params, "End": True}}}


CHILD_OK = {"StartAt": "P", "States": {"P": {"Type": "Pass", "Result": {"r": 1}, "End": True}}}
CHILD_FAIL = {"StartAt": "F", "States": {"F": {"Type": "Fail", "Error": "ChildBoom", "Cause": "why"}}}


def children(seed=0, tier="quick", **_):
    n = 0
    probs = []
    cases = []

    def run(name, resource, child_asl, child_type, parent_type="STANDARD", extra=None, child="child"):
        sim = S.Sim(parent(resource, child, extra), {"x": 1}, name="parent", sm_type=parent_type,
                    extra_machines={"child": (child_asl, child_type)} if child_asl is not None else {})
        sim.run()
        cases.append(name)
        return sim

    # .sync:2 : completes when the child is terminal, child fields under their documented names, Output as JSON
    sim = run("sync2-ok", "arn:aws:states:::states:startExecution.sync:2", CHILD_OK, "STANDARD")
    n += 1
    out = sim.output()
    rec = sim.record() or {}
    if rec.get("status") != "SUCCEEDED" or not isinstance(out, dict):
        probs.append("C15 sync:2: parent %s, output %r" % (rec.get("status"), out))
    else:
        if set(out) != DOC:
            probs.append("C15 sync:2: task result has members %s, the documented DescribeExecution names are %s" % (sorted(out), sorted(DOC)))
        if out.get("Output") != {"r": 1} and out.get("output") != {"r": 1}:
            probs.append("C15 sync:2: Output is %r, expected the JSON value {'r': 1}" % (out.get("Output"),))
        if out.get("Input") != {"q": 7}:
            probs.append("C15 sync:2: Input is %r, expected {'q': 7}" % (out.get("Input"),))
        if out.get("Status") != "SUCCEEDED":
            probs.append("C15 sync:2: Status %r" % out.get("Status"))
    # .sync : Output is a string
    sim = run("sync-ok", "arn:aws:states:::states:startExecution.sync", CHILD_OK, "STANDARD")
    n += 1
    out = sim.output()
    if (sim.record() or {}).get("status") != "SUCCEEDED" or not isinstance(out, dict) or out.get("Output") != '{"r": 1}':
        probs.append("C15 sync: parent %s, Output %r (expected the JSON text)" % ((sim.record() or {}).get("status"),
                                                                                 out.get("Output") if isinstance(out, dict) else out))
    # child fails: the task fails with States.TaskFailed carrying the child's error
    sim = run("sync-child-fails", "arn:aws:states:::states:startExecution.sync", CHILD_FAIL, "STANDARD")
    n += 1
    rec = sim.record() or {}
    if rec.get("status") != "FAILED" or rec.get("error") != "States.TaskFailed" or "ChildBoom" not in str(rec.get("cause")):
        probs.append("C15 child failure: parent %s error %r cause %r" % (rec.get("status"), rec.get("error"), str(rec.get("cause"))[:80]))
    # startExecution returns at once with the child's ARN
    sim = run("async", "arn:aws:states:::states:startExecution", CHILD_OK, "STANDARD")
    n += 1
    out = sim.output()
    if (sim.record() or {}).get("status") != "SUCCEEDED" or not isinstance(out, dict) or not str(out.get("executionArn", out.get("ExecutionArn", ""))).startswith(
            "arn:aws:states:local:0123456789:execution:child:"):
        probs.append("C15 async: parent %s output %r" % ((sim.record() or {}).get("status"), out))
    # invalid combinations fail the task
    for name, res, casl, ctype, ptype, child in (
            ("unknown-machine", "arn:aws:states:::states:startExecution.sync", None, None, "STANDARD", "nosuch"),
            ("sync-from-express", "arn:aws:states:::states:startExecution.sync", CHILD_OK, "STANDARD", "EXPRESS", "child"),
            ("startSync-of-standard", "arn:aws:states:::aws-sdk:sfn:startSyncExecution", CHILD_OK, "STANDARD", "STANDARD", "child")):
        sim = run(name, res, casl, ctype, parent_type=ptype, child=child)
        n += 1
        if ptype == "STANDARD":
            rec = sim.record() or {}
            if rec.get("status") != "FAILED":
                probs.append("C15 %s: parent %s (the task must fail)" % (name, rec.get("status")))
        else:
            term = [m for s, m in sim.broadcasts if m["detail"]["status"] in ("SUCCEEDED", "FAILED") and ":parent:" in m["detail"]["executionArn"]]
            if [m["detail"]["status"] for m in term] != ["FAILED"]:
                probs.append("C15 %s: terminal notifications %s (the task must fail)" % (name, [m["detail"]["status"] for m in term]))
    # the parent task times out while its synchronous child is blocked on a task: that task is cancelled too, a late
    # reply must not resume the child
    child2 = {"StartAt": "T1", "States": {"T1": {"Type": "Task", "Resource": "arn:aws:rpcmessage:local::function:slow", "Next": "T2"},
                                          "T2": {"Type": "Task", "Resource": "arn:aws:rpcmessage:local::function:next", "End": True}}}
    pasl = parent("arn:aws:states:::states:startExecution.sync", "child")
    pasl["States"]["Call"]["TimeoutSeconds"] = 5
    sim = S.Sim(pasl, {"x": 1}, name="parent", extra_machines={"child": (child2, "STANDARD")},
                tasks={"slow": lambda p, k: {"late": 1}, "next": lambda p, k: {"n": 1}})
    cases.append("parent-timeout-cancels-child-task")
    n += 1
    guard = 0
    while not any(r.subject == "slow" for r in sim.requests) and sim.enabled() and guard < 50:
        guard += 1
        sim.step(0)
    sim.eager_timers = True
    guard = 0
    while (sim.record() or {}).get("status") == "RUNNING" and guard < 50:        # let the deadline pass before the reply
        guard += 1
        acts = sim.enabled()
        t = [i for i, a in enumerate(acts) if a[0] == "timer"]
        o = [i for i, a in enumerate(acts) if a[0] == "deliver"]
        if not t and not o:
            break
        sim.step((o or t)[0])
    sim.eager_timers = False
    sim.run()
    rec = sim.record() or {}
    if rec.get("status") != "FAILED" or rec.get("error") != "States.Timeout":
        probs.append("C15 parent timeout: parent %s %r" % (rec.get("status"), rec.get("error")))
    if any(c[0] == "next" for c in sim.task_calls):
        probs.append("C15 parent timeout: the child's blocked task was not cancelled: its late reply resumed the child, which "
                     "issued a new request")
    if sim.crashes:
        probs.append("C15 parent timeout: " + "; ".join(sim.crashes))
    if probs:
        return {"failed": True, "evaluations": n, "input": {"cases": cases}, "detail": "; ".join(probs)[:1500]}
    return {"failed": False, "evaluations": n, "distinct": n, "exhaustive": True, "samples": [{"case": c} for c in cases[:3]]}
