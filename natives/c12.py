"""Bounded stand-ins for C12 (never counted as proved): the full-depth ResultPath laws, which need induction over
the document AND reasoning about aliasing between `result` and `input`; and the read laws through the real
jsonpath library.  Small-scope exhaustive enumeration on the REAL functions against a value-level reference."""
import copy
import itertools
import json

ATOMS = [0, "", None, False]


def docs(depth):
    """JSON documents up to `depth` containers deep, width <= 2, over a small alphabet."""
    if depth == 0:
        return list(ATOMS)
    sub = docs(depth - 1)
    small = sub if len(sub) <= 8 else sub[:4] + sub[-4:]
    out = list(ATOMS) + [{}, []]
    for a in small:
        out.append({"a": a})
        out.append([a])
    for a, b in itertools.product(small[:5], small[:5]):
        out.append({"a": a, "b": b})
        out.append([a, b])
    return out


def paths(maxlen):
    keys = ["a", "b", "0", "1", "2"]
    out = [[]]
    for n in range(1, maxlen + 1):
        out += [list(p) for p in itertools.product(keys, repeat=n)]
    return out


def render(tokens, notation):
    s = "$"
    for t in tokens:
        if t.isdigit():
            s += "[%s]" % t
        elif notation == "dot":
            s += "." + t
        else:
            s += "['%s']" % t
    return s


class Unplaceable(Exception):
    pass


def ref_put(doc, toks, res):
    """Value-level meaning of ResultPath (States Language, 'ResultPath'): a copy of doc with res at toks; members on
    the way that do not exist are created as objects; everything else is unchanged."""
    if not toks:
        return res
    k = toks[0]
    if isinstance(doc, list):
        if not k.isdigit() or int(k) >= len(doc):
            raise Unplaceable()
        out = list(doc)
        out[int(k)] = ref_put(doc[int(k)], toks[1:], res)
        return out
    if isinstance(doc, dict):
        if k.isdigit():
            raise Unplaceable()
        out = dict(doc)
        out[k] = ref_put(doc.get(k, {}), toks[1:], res)
        return out
    raise Unplaceable()


def subtrees(doc, prefix=()):
    yield prefix, doc
    if isinstance(doc, dict):
        for k, v in doc.items():
            for x in subtrees(v, prefix + (k,)):
                yield x
    elif isinstance(doc, list):
        for i, v in enumerate(doc):
            for x in subtrees(v, prefix + (str(i),)):
                yield x


def resultpath_laws(seed=0, tier="quick", skip_known=True, only=None, **_):
    from asl_workflow_engine.state_engine_paths import apply_resultpath
    from asl_workflow_engine.asl_exceptions import ResultPathMatchFailure
    depth = 2 if tier == "quick" else 3
    n = 0
    distinct = set()
    samples = []
    for doc in docs(depth):
        if doc is None:
            continue          # a null document is replaced by {} before placing (documented behaviour)
        for toks in paths(2 if tier == "quick" else 3):
            for notation in ("dot", "bracket"):
                if notation == "bracket" and all(t.isdigit() for t in toks):
                    continue
                path = render(toks, notation)
                variants = [("fresh", None)]
                if isinstance(doc, (dict, list)):
                    variants += [("alias", p) for p, v in subtrees(doc) if isinstance(v, (dict, list))][:4]
                for kind, where in variants:
                    work = json.loads(json.dumps(doc))     # a tree: parsed JSON shares no sub-objects
                    if kind == "fresh":
                        res = {"r": 1}
                    else:
                        res = work
                        for t in where:
                            res = res[int(t)] if isinstance(res, list) else res[t]
                    res_value = copy.deepcopy(res)
                    n += 1
                    case = {"doc": doc, "path": path, "result": kind, "alias_at": list(where) if where is not None else None}
                    if only is not None and case != only:
                        continue
                    try:
                        want = ("ok", ref_put(doc, toks, res_value))
                    except Unplaceable:
                        want = ("unplaceable", None)
                    try:
                        got_obj = apply_resultpath(work, res, path)
                        try:
                            got = ("ok", json.loads(json.dumps(got_obj)))
                        except (ValueError, RecursionError) as e:
                            got = ("not-a-finite-tree", str(e)[:60])
                    except ResultPathMatchFailure:
                        got = ("unplaceable", None)
                    except Exception as e:
                        got = ("other-exception", "%s: %s" % (type(e).__name__, e))
                    distinct.add((json.dumps(doc, sort_keys=True), path, kind, where))
                    if got != want:
                        return {"failed": True, "evaluations": n, "input": case,
                                "detail": "apply_resultpath(%s, <%s%s>, %r): got %r, the States Language gives %r"
                                          % (json.dumps(doc), kind, "" if where is None else " at " + "/".join(where), path, got, want)}
                    if len(samples) < 4 and n % 997 == 3:
                        samples.append(case)
    return {"failed": False, "evaluations": n, "distinct": len(distinct), "exhaustive": True, "samples": samples}


def read_laws(seed=0, tier="quick", **_):
    """apply_path on definite paths: never modifies the document, '$' is the document itself, a definite path
    returns exactly the addressed value, a missing one raises PathMatchFailure (through the REAL jsonpath library)."""
    from asl_workflow_engine.state_engine_paths import apply_path
    from asl_workflow_engine.asl_exceptions import PathMatchFailure
    depth = 2 if tier == "quick" else 3
    n = 0
    samples = []
    for doc in docs(depth):
        if not isinstance(doc, (dict, list)):
            continue
        for toks in paths(2):
            path = render(toks, "dot")
            before = json.dumps(doc, sort_keys=True)
            cur, ok = doc, True
            for t in toks:
                if isinstance(cur, list) and t.isdigit() and int(t) < len(cur):
                    cur = cur[int(t)]
                elif isinstance(cur, dict) and not t.isdigit() and t in cur:
                    cur = cur[t]
                else:
                    ok = False
                    break
            n += 1
            try:
                got = ("ok", apply_path(doc, {"ctx": 1}, path))
            except PathMatchFailure:
                got = ("no-match", None)
            except Exception as e:
                got = ("other-exception", "%s: %s" % (type(e).__name__, e))
            if json.dumps(doc, sort_keys=True) != before:
                return {"failed": True, "evaluations": n, "input": {"doc": json.loads(before), "path": path},
                        "detail": "apply_path modified the document it read"}
            if ok:
                bad = got[0] != "ok" or (got[1] is not cur and got[1] != cur)
                if not toks:
                    bad = got[0] != "ok" or got[1] is not doc
                # jsonpath reports a match whose value is False/None/0/'' like any other
                if bad:
                    return {"failed": True, "evaluations": n, "input": {"doc": doc, "path": path},
                            "detail": "apply_path(%s, %r) = %r, addressed value is %r" % (json.dumps(doc), path, got, cur)}
            elif got[0] != "no-match":
                return {"failed": True, "evaluations": n, "input": {"doc": doc, "path": path},
                        "detail": "apply_path(%s, %r) = %r for a path that addresses nothing (must fail, never invent)"
                                  % (json.dumps(doc), path, got)}
            if len(samples) < 3 and n % 501 == 7:
                samples.append({"doc": doc, "path": path})
    return {"failed": False, "evaluations": n, "distinct": n, "exhaustive": True, "samples": samples}
