"""Bounded stand-in for C07 (never counted as proved): Retry / Catch policy of a Task state through the REAL engine
and task dispatcher, against a reference policy written from the States Language text, over a small grammar of
retrier / catcher lists and worker outcome sequences (virtual time, so back-off delays are compared exactly)."""
import itertools

from natives import sim as S
from natives.c05 import task

ERR = lambda name: {"errorType": name, "errorMessage": "msg"}


def matches(rule, e):
    ee = rule["ErrorEquals"]
    return e in ee or ee == ["States.ALL"]


def policy(retry, catch, outcomes):
    """-> (number of invocations, delays between them in seconds, final ('SUCCEEDED', result) | ('CAUGHT', e) | ('FAILED', e))"""
    calls, delays, count = 0, [], 0
    i = 0
    while True:
        o = outcomes[min(i, len(outcomes) - 1)]
        i += 1
        calls += 1
        if o is None:
            return calls, delays, ("SUCCEEDED", {"ok": True})
        r = next((r for r in retry if matches(r, o)), None)
        if r is not None and count < r.get("MaxAttempts", 3):
            rate = max(r.get("BackoffRate", 2.0), 1.0)
            delays.append(r.get("IntervalSeconds", 1) * (rate ** count))
            count += 1
            continue
        c = next((c for c in catch if matches(c, o)), None)
        if c is not None:
            return calls, delays, ("CAUGHT", o)
        return calls, delays, ("FAILED", o)


RETRIERS = [
    {"ErrorEquals": ["E1"], "IntervalSeconds": 1, "MaxAttempts": 2, "BackoffRate": 2.0},
    {"ErrorEquals": ["E2"], "IntervalSeconds": 2, "MaxAttempts": 1, "BackoffRate": 1.5},
    {"ErrorEquals": ["E1", "E2"], "MaxAttempts": 0},
    {"ErrorEquals": ["States.ALL"], "IntervalSeconds": 3, "MaxAttempts": 3, "BackoffRate": 1.0},
    {"ErrorEquals": ["States.ALL"]},
]
CATCHERS = [
    {"ErrorEquals": ["E1"], "ResultPath": "$.err", "Next": "Recover"},
    {"ErrorEquals": ["States.ALL"], "Next": "Recover"},
    {"ErrorEquals": ["E2"], "ResultPath": "$.e2", "Next": "Recover"},
]
OUTCOMES = [[None], ["E1", None], ["E1", "E1", None], ["E1"], ["E2"], ["E2", None], ["E3"]]


def lists(xs, maxlen):
    out = [[]]
    for n in range(1, maxlen + 1):
        out += [list(p) for p in itertools.permutations(xs, n)]
    return out


def retry_catch(seed=0, tier="quick", **_):
    n = 0
    samples = []
    rl = lists(RETRIERS, 2)
    cl = lists(CATCHERS, 2 if tier == "thorough" else 1)
    if tier != "thorough":
        rl = [r for i, r in enumerate(rl) if len(r) <= 1 or (i + seed) % 2 == 0]
    for retry in rl:
        if any(r["ErrorEquals"] == ["States.ALL"] for r in retry[:-1]):
            continue            # States.ALL must be the last retrier (States Language)
        for catch in cl:
            if any(c["ErrorEquals"] == ["States.ALL"] for c in catch[:-1]):
                continue
            for outs in OUTCOMES:
                st = dict(task("w", end=False, nxt="After"))
                if retry:
                    st["Retry"] = retry
                if catch:
                    st["Catch"] = catch
                # Recover wraps its input, so that an Error Output at the top level is not the execution's final output
                # (the engine reads a top-level "Error" member of the final output as failure: known finding C07-in-band-error)
                asl = {"StartAt": "T", "States": {"T": st, "After": {"Type": "Pass", "End": True},
                                                  "Recover": {"Type": "Pass", "Parameters": {"caught.$": "$"}, "End": True}}}
                seq = list(outs)

                def worker(p, k, seq=seq):
                    o = seq[min(k, len(seq) - 1)]
                    return {"ok": True} if o is None else ERR(o)
                sim = S.Sim(asl, {"in": 1}, tasks={"w": worker})
                sim.run()
                n += 1
                calls, delays, final = policy(retry, catch, outs)
                case = {"Retry": retry, "Catch": catch, "outcomes": outs}
                probs = S.generic_invariants(sim)
                times = [t for name, p, t in sim.task_calls]
                if len(times) != calls:
                    probs.append("C07: task invoked %d times, the policy gives %d" % (len(times), calls))
                else:
                    got = [round((b - a) / 1000.0, 1) for a, b in zip(times, times[1:])]
                    if any(abs(g - d) > 0.2 for g, d in zip(got, delays)):
                        probs.append("C07: delays between attempts %r s, the policy gives %r s" % (got, delays))
                rec = sim.record() or {}
                if final[0] == "SUCCEEDED":
                    if rec.get("status") != "SUCCEEDED" or sim.output() != final[1]:
                        probs.append("C07: expected SUCCEEDED with %r, got %s %r" % (final[1], rec.get("status"), sim.output()))
                elif final[0] == "FAILED":
                    if rec.get("status") != "FAILED" or rec.get("error") != final[1]:
                        probs.append("C07: expected FAILED with %s, got %s %s" % (final[1], rec.get("status"), rec.get("error")))
                else:
                    c = next(c for c in catch if matches(c, final[1]))
                    out = (sim.output() or {}).get("caught") if isinstance(sim.output(), dict) else None
                    rp = c.get("ResultPath", "$")
                    eo = out if rp == "$" else (out or {}).get(rp[2:]) if isinstance(out, dict) else None
                    if rec.get("status") != "SUCCEEDED" or not isinstance(eo, dict) or eo.get("Error") != final[1]:
                        probs.append("C07: expected the catcher %r to place the Error Output for %s, got %s %r"
                                     % (c, final[1], rec.get("status"), out))
                    elif rp != "$" and out.get("in") != 1:
                        probs.append("C07: Error Output not placed into the state's original input: %r" % (out,))
                if probs:
                    return {"failed": True, "evaluations": n, "input": case, "detail": "; ".join(probs)[:1200]}
                if len(samples) < 4 and n % 53 == 7:
                    samples.append(case)
    # retry counters do not leak from one state to the next
    two = {"StartAt": "A", "States": {
        "A": dict(task("a", end=False, nxt="B"), Retry=[{"ErrorEquals": ["States.ALL"], "IntervalSeconds": 1, "MaxAttempts": 2}]),
        "B": dict(task("b"), Retry=[{"ErrorEquals": ["States.ALL"], "IntervalSeconds": 1, "MaxAttempts": 2}])}}
    sim = S.Sim(two, {}, tasks={"a": lambda p, k: ERR("E1") if k < 2 else {"a": 1}, "b": lambda p, k: ERR("E1") if k < 2 else {"b": 1}})
    sim.run()
    n += 1
    probs = S.generic_invariants(sim)
    cb = [c for c in sim.task_calls if c[0] == "b"]
    if len(cb) != 3 or (sim.record() or {}).get("status") != "SUCCEEDED":
        probs.append("C07: second state invoked %d times / %s: retry counters leaked from the first state"
                     % (len(cb), (sim.record() or {}).get("status")))
    # States.ALL does not match the unrecoverable States.Runtime
    rt = {"StartAt": "T", "States": {"T": dict(task("w", end=False, nxt="After"), InputPath="$.missing",
                                                 Retry=[{"ErrorEquals": ["States.ALL"]}],
                                                 Catch=[{"ErrorEquals": ["States.ALL"], "Next": "After"}]),
                                     "After": {"Type": "Pass", "End": True}}}
    sim2 = S.Sim(rt, {"in": 1}, tasks={"w": lambda p, k: {"ok": True}})
    sim2.run()
    n += 1
    probs += S.generic_invariants(sim2)
    if (sim2.record() or {}).get("status") != "FAILED" or (sim2.record() or {}).get("error") != "States.Runtime":
        probs.append("C07: a runtime error was retried or caught by States.ALL: %s %s" % ((sim2.record() or {}).get("status"),
                                                                                          (sim2.record() or {}).get("error")))
    if probs:
        return {"failed": True, "evaluations": n, "input": {"case": "counter leak / unrecoverable"}, "detail": "; ".join(probs)[:1200]}
    kf = in_band_error()
    n += 1
    return {"failed": False, "evaluations": n, "distinct": n, "exhaustive": True, "samples": samples,
            "known": ["C07-in-band-error"] if kf.get("failed") else []}


def in_band_error(**_):
    """Witness of known finding C07-in-band-error: an error that was CAUGHT, whose Error Output is the final output."""
    asl = {"StartAt": "T", "States": {
        "T": dict(task("w"), Catch=[{"ErrorEquals": ["States.ALL"], "Next": "Recover"}]),
        "Recover": {"Type": "Pass", "End": True}}}
    sim = S.Sim(asl, {"in": 1}, tasks={"w": lambda p, k: ERR("E1")})
    sim.run()
    rec = sim.record() or {}
    bad = rec.get("status") != "SUCCEEDED"
    return {"failed": bad, "evaluations": 1,
            "detail": "Task fails with E1, Catch [States.ALL] -> Recover (Pass, End): execution reported %s (error %r); the error "
                      "was handled, the States Language says SUCCEEDED with the Error Output as output" % (rec.get("status"), rec.get("error"))}
