"""Bounded stand-in for C14 (never counted as proved): the operator dispatch by key name, the *Path indirection,
And/Or/Not, rule order / Default, and StringMatches (fnmatch is external), exercised through the REAL engine
(notify -> asl_state_Choice) by small-scope exhaustive enumeration against a reference written from the States
Language text.  Per-operator comparison logic is ALSO proved deductively (contracts/choice.py)."""
import datetime as _dt
import itertools
import json

from natives import harness

MISSING = "<missing>"
VALUES = [MISSING, None, False, True, 0, 1, -1.5, "", "a", "b", "A", "*", "F*", "2016-03-14T01:59:00Z", "2016-03-14T02:59:00+01:00",
          "2016-03-14T01:59:01Z", "2016-03-14T01:59:00.5Z", "2016-03-14T01:59:00.25+00:00", [], {}]
TS_OPS = {"TimestampEquals": "eq", "TimestampGreaterThan": "gt", "TimestampGreaterThanEquals": "ge",
          "TimestampLessThan": "lt", "TimestampLessThanEquals": "le"}
NUM_OPS = {"NumericEquals": "eq", "NumericGreaterThan": "gt", "NumericGreaterThanEquals": "ge", "NumericLessThan": "lt",
           "NumericLessThanEquals": "le"}
STR_OPS = {"StringEquals": "eq", "StringGreaterThan": "gt", "StringGreaterThanEquals": "ge", "StringLessThan": "lt",
           "StringLessThanEquals": "le"}
REL = {"eq": lambda a, b: a == b, "gt": lambda a, b: a > b, "ge": lambda a, b: a >= b, "lt": lambda a, b: a < b,
       "le": lambda a, b: a <= b}


def isnum(x):
    return isinstance(x, (int, float)) and not isinstance(x, bool)


def instant(s):
    if not isinstance(s, str):
        return None
    try:
        d = _dt.datetime.fromisoformat(s.strip().replace("Z", "+00:00"))
    except ValueError:
        return None
    if d.tzinfo is None:
        return None
    return d.timestamp()


def glob_star(pattern, s):
    """'*' matches zero or more characters, backslash escapes the next character, nothing else is special."""
    toks = []
    i = 0
    while i < len(pattern):
        c = pattern[i]
        if c == "\\" and i + 1 < len(pattern):
            toks.append(("lit", pattern[i + 1]))
            i += 2
        elif c == "*":
            toks.append(("star", None))
            i += 1
        else:
            toks.append(("lit", c))
            i += 1

    def m(ti, si):
        if ti == len(toks):
            return si == len(s)
        k, c = toks[ti]
        if k == "star":
            return any(m(ti + 1, j) for j in range(si, len(s) + 1))
        return si < len(s) and s[si] == c and m(ti + 1, si + 1)
    return m(0, 0)


def ref_rule(rule, data):
    """Does the rule match? (States Language: Choice state / comparison operators)"""
    if "And" in rule:
        return all(ref_rule(r, data) for r in rule["And"])
    if "Or" in rule:
        return any(ref_rule(r, data) for r in rule["Or"])
    if "Not" in rule:
        return not ref_rule(rule["Not"], data)
    key = [k for k in rule if k not in ("Variable", "Next")][0]
    const = rule[key]
    vname = rule["Variable"][2:]
    present = vname in data
    var = data.get(vname)
    op = key
    if op.endswith("Path"):
        op = op[:-4]
        name = const[2:]
        if name not in data:
            return False
        const = data[name]
    if op == "IsPresent":
        return present == const
    if not present:
        return None if op.startswith("Is") else False      # Is* on a missing Variable: not asserted here
    if op == "BooleanEquals":
        return isinstance(var, bool) and isinstance(const, bool) and var == const
    if op in NUM_OPS:
        return isnum(var) and isnum(const) and REL[NUM_OPS[op]](var, const)
    if op in STR_OPS:
        return isinstance(var, str) and isinstance(const, str) and REL[STR_OPS[op]](var, const)
    if op == "CaseInsensitiveStringEquals":
        return isinstance(var, str) and isinstance(const, str) and var.lower() == const.lower()
    if op in TS_OPS:
        a, b = instant(var), instant(const)
        return a is not None and b is not None and REL[TS_OPS[op]](a, b)
    if op == "StringMatches":
        return isinstance(var, str) and isinstance(const, str) and glob_star(const, var)
    if op == "IsNull":
        return (var is None) == const
    if op == "IsNumeric":
        return isnum(var) == const
    if op == "IsString":
        return isinstance(var, str) == const
    if op == "IsBoolean":
        return isinstance(var, bool) == const
    if op == "IsTimestamp":
        return (instant(var) is not None) == const
    raise KeyError(op)


def machine(rules, default=True):
    st = {"Type": "Choice", "Choices": rules}
    if default:
        st["Default"] = "NotMatched"
    states = {"ChoiceState": st, "NotMatched": {"Type": "Pass", "Result": "NotMatched", "End": True}}
    for i in range(len(rules)):
        states["M%d" % i] = {"Type": "Pass", "Result": "M%d" % i, "End": True}
    return {"StartAt": "ChoiceState", "States": states}


def observed(engine, disp, rules, data):
    rules = [dict(r, Next="M%d" % i) for i, r in enumerate(rules)]
    harness.run(engine, disp, machine(rules), data)
    return disp.last_event["context"]["State"]["Name"] if disp.last_event else None


def operators(seed=0, tier="quick", **_):
    engine, disp = harness.new_engine()
    n = 0
    distinct = 0
    samples = []
    consts = [c for c in VALUES if c != MISSING]
    all_ops = ["BooleanEquals", "CaseInsensitiveStringEquals", "StringMatches"] + list(NUM_OPS) + list(STR_OPS) + list(TS_OPS)
    isops = ["IsPresent", "IsNull", "IsNumeric", "IsString", "IsBoolean", "IsTimestamp"]

    def check(rule, data, what):
        nonlocal n, distinct
        want = ref_rule(rule, data)
        if want is None:
            return None
        n += 1
        distinct += 1
        got = observed(engine, disp, [rule], data)
        if got != ("M0" if want else "NotMatched"):
            return {"failed": True, "evaluations": n, "input": {"rule": rule, "data": data},
                    "detail": "%s: rule %s on input %s: engine took %s, the States Language says %s"
                              % (what, json.dumps(rule), json.dumps(data), got, "match" if want else "no match")}
        if len(samples) < 4 and n % 811 == 5:
            samples.append({"rule": rule, "data": data, "match": bool(want)})
        return None

    for var in VALUES:
        data = {} if var == MISSING else {"v": var}
        for op in all_ops:
            for c in consts:
                r = check({"Variable": "$.v", op: c}, data, "comparison")
                if r:
                    return r
                # the *Path variant compares against the referenced value
                d2 = dict(data, c=c)
                r = check({"Variable": "$.v", op + "Path": "$.c"}, d2, "path variant")
                if r:
                    return r
        for op in isops:
            for c in (True, False):
                r = check({"Variable": "$.v", op: c}, data, "type test")
                if r:
                    return r
    # StringMatches: patterns x subjects over a small alphabet
    alpha = ["a", "b", "*", "?", "[", "\\"]
    pats = [""] + ["".join(p) for k in (1, 2, 3) for p in itertools.product(alpha, repeat=k)]
    subs = ["", "a", "b", "ab", "ba", "a*", "?", "[", "a?b", "\\"]
    if tier != "thorough":
        pats = [p for i, p in enumerate(pats) if i % 3 == seed % 3 or len(p) <= 2]
    for p in pats:
        if any(c == "\\" and (i + 1 >= len(p) or p[i + 1] != "*") for i, c in enumerate(p)):
            continue            # the only defined escape is \* (a literal star); other uses of a backslash are not asserted
        for s in subs:
            r = check({"Variable": "$.v", "StringMatches": p}, {"v": s}, "StringMatches")
            if r:
                return r
    # And / Or / Not and rule order
    atoms = [{"Variable": "$.v", "NumericGreaterThan": 0}, {"Variable": "$.v", "IsString": True},
             {"Variable": "$.w", "IsPresent": True}]
    datas = [{"v": 1}, {"v": 0}, {"v": "s"}, {"v": 1, "w": 0}, {}]
    combos = []
    for a, b in itertools.product(atoms, repeat=2):
        combos += [{"And": [a, b]}, {"Or": [a, b]}, {"Not": a}, {"Not": {"And": [a, {"Not": b}]}}, {"Or": [{"Not": a}, {"And": [a, b]}]}]
    for rule in combos:
        for data in datas:
            r = check(rule, data, "Boolean combination")
            if r:
                return r
    for r1, r2 in itertools.product(atoms, repeat=2):
        for data in datas:
            m1, m2 = ref_rule(r1, data), ref_rule(r2, data)
            if m1 is None or m2 is None:
                continue
            n += 1
            want = "M0" if m1 else ("M1" if m2 else "NotMatched")
            got = observed(engine, disp, [r1, r2], data)
            if got != want:
                return {"failed": True, "evaluations": n, "input": {"rules": [r1, r2], "data": data},
                        "detail": "rule order: rules %s on %s: engine took %s, first match is %s"
                                  % (json.dumps([r1, r2]), json.dumps(data), got, want)}
    return {"failed": False, "evaluations": n, "distinct": distinct, "exhaustive": True, "samples": samples}
