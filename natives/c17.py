"""Bounded stand-in for the linking clause of C17 (never counted as proved): "every place that derives one identifier from the
other (record creation, EXPRESS details, recovery after restart, timeout backstop, notifications) arrives at the same state
machine ARN and execution name".  STANDARD and EXPRESS executions of machines whose NAMES are adversarial for string
surgery on ARNs (they contain 'execution', 'stateMachine', the other identifier's words) run through the real engine; the
RUNNING and terminal notifications, the stored record (STANDARD) and the back-stop's synthesised end must all name the
machine the execution was started for."""
import time

from natives import sim as S
from natives.c05 import task

NAMES = ["m", "execution", "my-execution-flow", "stateMachine", "execution-of-stateMachine", "x.execution_1", "stateMachineexecution"]


def links(seed=0, tier="quick", **_):
    n = 0
    for typ in ("STANDARD", "EXPRESS"):
        for name in NAMES:
            for failing in (False, True):
                asl = {"StartAt": "T", "States": {"T": task("f")}}
                sim = S.Sim(asl, {"x": 1}, tasks={"f": (lambda p, k: {"errorType": "E", "errorMessage": "m"}) if failing else (lambda p, k: {"ok": 1})},
                            sm_type=typ, name=name)
                sim.run([])
                n += 1
                want_sm = "arn:aws:states:local:0123456789:stateMachine:" + name
                want_ex = "arn:aws:states:local:0123456789:execution:%s:run1" % name
                notes = [m for _, m in sim.broadcasts] if sim.broadcasts and isinstance(sim.broadcasts[0], tuple) else list(sim.broadcasts)
                details = []
                for m in notes:
                    d = m.get("detail") if isinstance(m, dict) else None
                    if d:
                        details.append(d)
                probs = []
                if len(details) < 2:
                    probs.append("C17: %d status notifications seen" % len(details))
                for d in details:
                    if d.get("stateMachineArn") != want_sm or d.get("executionArn") != want_ex or d.get("name") != "run1":
                        probs.append("C17: %s notification names machine %r / execution %r / name %r; started for %r / %r / 'run1'"
                                     % (d.get("status"), d.get("stateMachineArn"), d.get("executionArn"), d.get("name"), want_sm, want_ex))
                if typ == "STANDARD":
                    rec = sim.record() or {}
                    if rec.get("stateMachineArn") != want_sm or rec.get("executionArn") != want_ex or rec.get("name") != "run1":
                        probs.append("C17: stored record names %r / %r / %r" % (rec.get("stateMachineArn"), rec.get("executionArn"), rec.get("name")))
                if probs:
                    return {"failed": True, "evaluations": n, "input": {"type": typ, "machine_name": name, "failing": failing},
                            "detail": "[%s machine %r] " % (typ, name) + "; ".join(probs)[:900]}
    # the heartbeat back-stop derives the machine from the execution ARN
    for name in NAMES:
        asl = {"StartAt": "P", "TimeoutSeconds": 0, "States": {"P": {"Type": "Parallel", "End": True, "Branches": [
            {"StartAt": "A", "States": {"A": task("stuck")}}, {"StartAt": "B", "States": {"B": task("stuck")}}]}}}
        sim = S.Sim(asl, {"x": 1}, tasks={"stuck": lambda p, k: S.NOREPLY}, name=name)
        guard = 0
        while len(sim.requests) < 2 and sim.enabled() and guard < 60:
            guard += 1
            sim.step(0)
        sim.cleared |= set(t[1] for t in sim.timers)
        time.sleep(0.01)
        sim.engine.heartbeat(60)
        n += 1
        term = sim.terminal_notifications()
        want_sm = "arn:aws:states:local:0123456789:stateMachine:" + name
        if len(term) != 1 or term[0]["detail"].get("stateMachineArn") != want_sm:
            return {"failed": True, "evaluations": n, "input": {"machine_name": name, "path": "timeout back-stop"},
                    "detail": "C17: back-stop end of an execution of %r announced %s" % (name, [t["detail"].get("stateMachineArn") for t in term])}
    return {"failed": False, "evaluations": n, "distinct": n, "samples": [{"type": "EXPRESS", "machine_name": NAMES[2]}]}
