"""Bounded stand-in for C13 (never counted as proved): the template walk (clone / evaluate, recursive over the
template) and the argument tokeniser (a regex with lazy quantifiers and look-behind) are outside the verifier's reach;
they are exercised on the REAL evaluate_payload_template against a reference walker over all small templates."""
import copy
import itertools
import json

INPUT = {"a": 1, "b": {"c": [1, 2]}, "n": 41, "s": "x,y", "t.$": "$.a"}
CONTEXT = {"Execution": {"Id": "e"}}

LEAVES = [("k", 0), ("k", "lit"), ("k", "$.a"), ("p.$", "$.a"), ("p.$", "$.b.c"), ("q.$", "$$.Execution.Id"),
          ("r.$", "States.MathAdd($.n, 1)"), ("w.$", "$")]


def templates(depth):
    base = [dict([l]) for l in LEAVES]
    base += [dict([a, b]) for a, b in itertools.combinations(LEAVES, 2) if a[0] != b[0]][:12]
    out = list(base) + [{}, None, "", {"l": ["$.a.$", "x"]}, {"l": [["$.b.$"]]}, ["$$.Execution.Id.$"]]
    if depth >= 1:
        for t in base[:8]:
            out.append({"o": t})
            out.append({"l": [t, 5, "v"]})
            out.append({"l": [[t], "plain"]})
            out.append([t, {"z": [t]}])
    if depth >= 2:
        for t in base[:6]:
            out.append({"o": {"oo": {"l": [[[t]]]}}})
    return out


def ref_path(path):
    if path == "$":
        return copy.deepcopy(INPUT)
    if path == "$.a":
        return 1
    if path == "$.b.c":
        return [1, 2]
    if path == "$$.Execution.Id":
        return "e"
    raise KeyError(path)


def ref_walk(t):
    """Only object MEMBERS whose name ends in '.$' are evaluated and renamed; everything else is copied verbatim."""
    if isinstance(t, dict):
        out = {}
        for k, v in t.items():
            if isinstance(v, (dict, list)):
                out[k] = ref_walk(v)
            elif isinstance(k, str) and k.endswith(".$"):
                out[k[:-2]] = 42 if v.startswith("States.MathAdd") else ref_path(v)
            else:
                out[k] = v
        return out
    if isinstance(t, list):
        return [ref_walk(x) if isinstance(x, (dict, list)) else x for x in t]
    return t


def shares(a, b):
    """does a contain (by identity) a mutable object of b?"""
    ids = set()

    def collect(x):
        if isinstance(x, (dict, list)):
            ids.add(id(x))
            for y in (x.values() if isinstance(x, dict) else x):
                collect(y)
    collect(b)

    def walk(x):
        if isinstance(x, (dict, list)):
            if id(x) in ids:
                return True
            return any(walk(y) for y in (x.values() if isinstance(x, dict) else x))
        return False
    return walk(a)


def template_walk(seed=0, tier="quick", **_):
    from asl_workflow_engine.state_engine_paths import evaluate_payload_template
    n = 0
    samples = []
    for t in templates(1 if tier == "quick" else 2):
        tcopy = copy.deepcopy(t)
        inp = copy.deepcopy(INPUT)
        ctx = copy.deepcopy(CONTEXT)
        n += 1
        try:
            got = evaluate_payload_template(inp, ctx, t)
        except Exception as e:
            return {"failed": True, "evaluations": n, "input": {"template": tcopy},
                    "detail": "evaluate_payload_template(%s) raised %s: %s" % (json.dumps(tcopy), type(e).__name__, e)}
        want = inp if t in (None, "") else ref_walk(tcopy)
        if got != want:
            return {"failed": True, "evaluations": n, "input": {"template": tcopy},
                    "detail": "template %s on %s: got %s, the States Language gives %s"
                              % (json.dumps(tcopy), json.dumps(INPUT), json.dumps(got), json.dumps(want))}
        if t != tcopy or inp != INPUT or ctx != CONTEXT:
            return {"failed": True, "evaluations": n, "input": {"template": tcopy},
                    "detail": "template / input / context was modified by the evaluation of %s" % json.dumps(tcopy)}
        if t not in (None, "") and shares(got, t):
            return {"failed": True, "evaluations": n, "input": {"template": tcopy},
                    "detail": "the result of %s shares a mutable object with the template" % json.dumps(tcopy)}
        if len(samples) < 3 and n % 11 == 3:
            samples.append({"template": tcopy})
    return {"failed": False, "evaluations": n, "distinct": n, "exhaustive": True, "samples": samples}


CALLS = [
    ("States.Format('a {} b {}', $.a, 'z')", "a 1 b z"), ("States.ArrayPartition($.b.c, 1)", [[1], [2]]),
    ("States.ArrayRange(1, 9, 2)", [1, 3, 5, 7, 9]), ("States.ArrayGetItem($.b.c, 1)", 2), ("States.ArrayGetItem($.b.c, 0)", 1),
    ("States.ArrayContains($.b.c, 2)", True), ("States.ArrayContains($.b.c, 3)", False), ("States.ArrayLength($.b.c)", 2),
    ("States.MathAdd($.n, 1)", 42), ("States.MathAdd(1, -1)", 0), ("States.JsonMerge($.b, $.b, false)", {"c": [1, 2]}),
    ("States.JsonToString($.b)", '{"c": [1, 2]}'), ("States.StringToJson('[1, 2]')", [1, 2]),
    ("States.Base64Decode(States.Base64Encode('hello'))", "hello"), ("States.Base64Encode('hello')", "aGVsbG8="),
    ("States.Hash('abc', 'SHA-256')", "ba7816bf8f01cfea414140de5dae2223b00361a396177a9cb410ff61f20015ad"),
    ("States.StringSplit($.s, ',')", ["x", "y"]), ("States.Array(1, 'two', $.a)", [1, "two", 1]),
    ("States.ArrayPartition(States.ArrayRange(1, 5, 1), 2)", [[1, 2], [3, 4], [5]]),
]
BAD = ["States.ArrayGetItem($.b.c, 2)", "States.ArrayGetItem($.b.c, 3)", "States.ArrayGetItem($.b.c, -1)", "States.ArrayGetItem($.a, 0)",
       "States.ArrayGetItem($.b.c)", "States.ArrayPartition($.b.c, 0)", "States.ArrayPartition($.a, 1)", "States.ArrayRange(1, 2, 0)",
       "States.ArrayRange(1, 2)", "States.ArrayRange(1, 5000, 1)", "States.ArrayLength($.a)", "States.ArrayLength()",
       "States.ArrayContains($.a, 1)", "States.MathAdd($.s, 1)", "States.MathAdd(1)", "States.JsonMerge($.b, $.b, true)",
       "States.JsonMerge($.b, $.a, false)", "States.StringToJson('{')", "States.StringToJson()", "States.Base64Encode($.a)",
       "States.Base64Decode($.a)", "States.Hash('abc', 'CRC')", "States.Hash($.a, 'MD5')", "States.StringSplit($.a, ',')",
       "States.UUID(1)", "States.Format()", "States.NoSuchFunction(1)", "States.MathAdd(x, 1)", "States.ArrayUnique($.a)"]


def intrinsics(seed=0, tier="quick", **_):
    from asl_workflow_engine.state_engine_paths import evaluate_payload_template
    from asl_workflow_engine.asl_exceptions import IntrinsicFailure, PathMatchFailure, ParameterPathFailure
    n = 0
    for expr, want in CALLS:
        n += 1
        try:
            got = evaluate_payload_template(copy.deepcopy(INPUT), CONTEXT, {"v.$": expr})
        except Exception as e:
            return {"failed": True, "evaluations": n, "input": {"expr": expr}, "detail": "%s raised %s: %s" % (expr, type(e).__name__, e)}
        if got != {"v": want}:
            return {"failed": True, "evaluations": n, "input": {"expr": expr},
                    "detail": "%s = %s, its definition gives %s" % (expr, json.dumps(got.get("v") if isinstance(got, dict) else got), json.dumps(want))}
    for expr in BAD:
        n += 1
        try:
            got = evaluate_payload_template(copy.deepcopy(INPUT), CONTEXT, {"v.$": expr})
        except (IntrinsicFailure, PathMatchFailure, ParameterPathFailure):
            continue
        except Exception as e:
            return {"failed": True, "evaluations": n, "input": {"expr": expr},
                    "detail": "ill-formed call %s raised %s (%s): only States.IntrinsicFailure / a path failure may escape"
                              % (expr, type(e).__name__, e)}
        return {"failed": True, "evaluations": n, "input": {"expr": expr},
                "detail": "ill-formed call %s returned %s instead of failing" % (expr, json.dumps(got))}
    return {"failed": False, "evaluations": n, "distinct": n, "exhaustive": True, "samples": [{"expr": CALLS[0][0]}, {"bad": BAD[0]}]}
