"""Bounded stand-in for C01 (never counted as proved): whole executions of a generated corpus of machines on the
REAL engine + task dispatcher (FIFO and a few other schedules) against the reference interpreter natives/refasl.py:
terminal status and output (or error name) must agree; generic invariants (C02/C03/C09/C11) are checked on the way."""
import copy
import itertools
import json

from natives import sim as S
from natives import refasl
from natives.c05 import task

ERR = {"errorType": "E1", "errorMessage": "m"}
TASKS = {
    "id": lambda p, k: p,
    "wrap": lambda p, k: {"got": p},
    "num": lambda p, k: 7,
    "fail": lambda p, k: dict(ERR),
    "flaky": lambda p, k: dict(ERR) if k == 0 else {"ok": k},
}
INPUTS = [{"a": {"b": 1}, "n": 3, "s": "x", "items": [1, 2]}, {"a": {"b": 2}, "n": 0, "s": "", "items": []}]


def io_variants():
    return [
        {}, {"InputPath": "$.a"}, {"OutputPath": "$.a"}, {"ResultPath": "$.r"}, {"ResultPath": None}, {"ResultPath": "$.a.c"},
        {"InputPath": "$.a", "ResultPath": "$.r", "OutputPath": "$.r"}, {"Parameters": {"p.$": "$.a.b", "lit": 1, "in": {"q.$": "$.n"}}},
        {"Parameters": {}}, {"InputPath": None}, {"OutputPath": None},
    ]


def machines():
    ms = []
    for v in io_variants():
        ms.append(("pass" + json.dumps(v), {"StartAt": "P", "States": {"P": dict({"Type": "Pass", "End": True}, **v)}}))
        ms.append(("pass-result" + json.dumps(v), {"StartAt": "P", "States": {"P": dict({"Type": "Pass", "Result": {"k": [1]}, "Next": "Q"}, **v),
                                                                          "Q": {"Type": "Succeed"}}}))
        for fn in ("wrap", "num"):
            st = dict(task(fn), **v)
            ms.append(("task-%s%s" % (fn, json.dumps(v)), {"StartAt": "T", "States": {"T": st}}))
            st2 = dict(task(fn), **v)
            st2["ResultSelector"] = {"sel.$": "$", "c": "k"}
            ms.append(("task-sel-%s%s" % (fn, json.dumps(v)), {"StartAt": "T", "States": {"T": st2}}))
    ms += [
        ("choice", {"StartAt": "C", "States": {
            "C": {"Type": "Choice", "InputPath": "$.a", "Choices": [{"Variable": "$.b", "NumericEquals": 1, "Next": "One"},
                                                                    {"Variable": "$.b", "NumericGreaterThan": 1, "Next": "Many"},
                                                                    {"Variable": "$.zz", "IsPresent": True, "Next": "One"}], "Default": "D"},
            "One": {"Type": "Pass", "Result": "one", "End": True}, "Many": {"Type": "Pass", "Result": "many", "End": True},
            "D": {"Type": "Fail", "Error": "NoMatch", "Cause": "c"}}}),
        ("choice-nodefault", {"StartAt": "C", "States": {
            "C": {"Type": "Choice", "Choices": [{"Variable": "$.n", "NumericEquals": 99, "Next": "S"}]}, "S": {"Type": "Succeed"}}}),
        ("wait", {"StartAt": "W", "States": {"W": {"Type": "Wait", "Seconds": 1, "OutputPath": "$.a", "Next": "S"}, "S": {"Type": "Succeed"}}}),
        ("fail", {"StartAt": "F", "States": {"F": {"Type": "Fail", "Error": "Boom", "Cause": "c"}}}),
        ("task-fail", {"StartAt": "T", "States": {"T": task("fail")}}),
        ("task-retry", {"StartAt": "T", "States": {"T": dict(task("flaky"), Retry=[{"ErrorEquals": ["E1"], "IntervalSeconds": 0}])}}),
        ("task-catch", {"StartAt": "T", "States": {
            "T": dict(task("fail", end=False, nxt="N"), Catch=[{"ErrorEquals": ["States.ALL"], "ResultPath": "$.err", "Next": "R"}]),
            "N": {"Type": "Succeed"}, "R": {"Type": "Pass", "OutputPath": "$.err.Error", "End": True}}}),
        ("missing-path", {"StartAt": "P", "States": {"P": {"Type": "Pass", "InputPath": "$.nope", "End": True}}}),
        ("parallel", {"StartAt": "P", "States": {"P": {"Type": "Parallel", "ResultPath": "$.res", "End": True, "Parameters": {"v.$": "$.n"}, "Branches": [
            {"StartAt": "A", "States": {"A": task("wrap")}}, {"StartAt": "B", "States": {"B": {"Type": "Pass", "Result": "b", "End": True}}},
            {"StartAt": "C", "States": {"C": task("id", end=False, nxt="C2"), "C2": {"Type": "Pass", "ResultPath": "$.x", "Result": 1, "End": True}}}]}}}),
        ("map", {"StartAt": "M", "States": {"M": {"Type": "Map", "ItemsPath": "$.items", "ResultSelector": {"all.$": "$"}, "Next": "S",
                                                "ItemProcessor": {"StartAt": "W", "States": {"W": task("wrap")}}}, "S": {"Type": "Succeed"}}}),
        ("map-selector", {"StartAt": "M", "States": {"M": {"Type": "Map", "ItemsPath": "$.items", "MaxConcurrency": 1, "End": True,
                                                         "ItemSelector": {"item.$": "$$.Map.Item.Value", "idx.$": "$$.Map.Item.Index", "n.$": "$.n"},
                                                         "ItemProcessor": {"StartAt": "W", "States": {"W": task("id")}}}}}),
        # ItemSelector is evaluated against the Map state's EFFECTIVE input (after InputPath), not its raw input
        ("map-inputpath-selector", {"StartAt": "W", "States": {
            "W": {"Type": "Pass", "Parameters": {"inner": {"items.$": "$.items", "tag.$": "$.s"}, "tag": "outer"}, "Next": "M"},
            "M": {"Type": "Map", "InputPath": "$.inner", "ItemsPath": "$.items", "End": True,
                  "ItemSelector": {"item.$": "$$.Map.Item.Value", "tag.$": "$.tag"},
                  "ItemProcessor": {"StartAt": "V", "States": {"V": task("id")}}}}}),
        ("nested", {"StartAt": "P", "States": {"P": {"Type": "Parallel", "End": True, "Branches": [
            {"StartAt": "M", "States": {"M": {"Type": "Map", "ItemsPath": "$.items", "End": True,
                                              "ItemProcessor": {"StartAt": "W", "States": {"W": task("wrap")}}}}},
            {"StartAt": "B", "States": {"B": task("num")}}]}}}),
        # (a Parallel whose branch failure is caught by its own Catch is exercised under C06, where the engine's missing
        # sibling clean-up is a recorded known finding)
    ]
    return ms


def corpus(seed=0, tier="quick", **_):
    n = 0
    samples = []
    known_hit = set()
    from natives import known
    for name, asl in machines():
        for di, data in enumerate(INPUTS):
            want = refasl.Machine(TASKS).run(copy.deepcopy(asl), copy.deepcopy(data))
            scheds = [([], "all"), ([1], "replies-last"), ([1, 1], "replies"), ([2, 1, 0, 1], "all")]
            for sch, mode in (scheds if tier == "thorough" or name.startswith(("parallel", "map", "nested")) else scheds[:1]):
                sim = S.Sim(copy.deepcopy(asl), copy.deepcopy(data), tasks=TASKS)
                trace = sim.run(sch, mode=mode)
                n += 1
                rec = sim.record() or {}
                got = (rec.get("status"), sim.output() if rec.get("status") == "SUCCEEDED" else rec.get("error"))
                probs = S.generic_invariants(sim)
                if got != (want[0], want[1]):
                    probs.append("C01: machine %s on %s: engine %s, the States Language gives %s" % (name, json.dumps(data), got, want))
                probs, hit = known.split("natives.c01", "%s#%d" % (name, di), probs, sim=sim)
                known_hit.update(hit)
                if probs:
                    return {"failed": True, "evaluations": n, "input": {"machine": name, "definition": asl, "input": data, "schedule": trace, "mode": mode},
                            "detail": "; ".join(probs)[:1500]}
                if len(samples) < 4 and n % 61 == 7:
                    samples.append({"machine": name, "input": data, "outcome": list(map(str, got))})
    return {"failed": False, "evaluations": n, "distinct": n, "samples": samples, "known": sorted(known_hit)}


def scenarios():
    return {"%s#%d" % (name, di): {"asl": asl, "tasks": TASKS, "data": data} for name, asl in machines() for di, data in enumerate(INPUTS)}
