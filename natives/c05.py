"""Bounded stand-in for C05 (never counted as proved): Parallel / Map joins through the REAL engine and task
dispatcher under enumerated schedules of event deliveries and task replies."""
from natives import sim as S
from natives.explore import explore, merge

FN = "arn:aws:rpcmessage:local::function:"


def task(name, end=True, nxt=None):
    st = {"Type": "Task", "Resource": FN + name}
    if end:
        st["End"] = True
    else:
        st["Next"] = nxt
    return st


def parallel_machine(k):
    return {"StartAt": "P", "States": {
        "P": {"Type": "Parallel", "Next": "After",
              "Branches": [{"StartAt": "T%d" % i, "States": {"T%d" % i: task("f%d" % i)}} for i in range(k)]},
        "After": {"Type": "Pass", "End": True}}}


def map_machine(mc):
    st = {"Type": "Map", "ItemsPath": "$.items", "Next": "After",
          "ItemProcessor": {"StartAt": "W", "States": {"W": task("work")}}}
    if mc is not None:
        st["MaxConcurrency"] = mc
    return {"StartAt": "M", "States": {"M": st, "After": {"Type": "Pass", "End": True}}}


def joins(seed=0, tier="quick", **_):
    depth = 5 if tier == "quick" else 7
    results = []
    for k in (2, 3):
        asl = parallel_machine(k)
        tasks = {"f%d" % i: (lambda i: (lambda p, n: {"branch": i, "in": p}))(i) for i in range(k)}

        def check(sim, trace, k=k):
            probs = S.generic_invariants(sim)
            want = [{"branch": i, "in": {"x": 1}} for i in range(k)]
            if sim.output() != want:
                probs.append("C05: Parallel output %r, branch order gives %r" % (sim.output(), want))
            starts = [i for i, p in enumerate(sim.published) if p["context"].get("State", {}).get("Name") == "After"]
            if len(starts) != 1:
                probs.append("C05: state after the join entered %d times" % len(starts))
            return probs
        results.append(("parallel-%d" % k, explore(lambda: S.Sim(asl, {"x": 1}, tasks=tasks), check, depth, seed=seed)))
        results.append(("parallel-%d/replies" % k, explore(lambda: S.Sim(asl, {"x": 1}, tasks=tasks), check, depth, seed=seed,
                                                         mode="replies", extra=5)))
        results.append(("parallel-%d/reply-order" % k, explore(lambda: S.Sim(asl, {"x": 1}, tasks=tasks), check, 4, seed=seed,
                                                             mode="replies-last", extra=5)))
    for n in (0, 1, 2, 3, 4):
        for mc in [None] + sorted(set([0, 1, 2, n, n + 1])):
            if mc is not None and mc > n + 1:
                continue
            asl = map_machine(mc)
            items = [{"i": i} for i in range(n)]
            maxfl = [0]

            def mk(asl=asl, items=items):
                sm = S.Sim(asl, {"items": items}, tasks={"work": lambda p, c: {"done": p["i"]}})
                orig = sm.step

                def step(c):
                    r = orig(c)
                    maxfl[0] = max(maxfl[0], len(sm.requests))
                    return r
                sm.step = step
                return sm

            def check(sim, trace, n=n, mc=mc):
                probs = S.generic_invariants(sim)
                want = [{"done": i} for i in range(n)]
                if sim.output() != want:
                    probs.append("C05: Map output %r, item order gives %r" % (sim.output(), want))
                calls = sorted(p["i"] for name, p, t in sim.task_calls)
                if calls != list(range(n)):
                    probs.append("C05: items processed %r, each exactly once is %r" % (calls, list(range(n))))
                if mc and maxfl[0] > mc:
                    probs.append("C05: %d iterations in flight with MaxConcurrency %d" % (maxfl[0], mc))
                maxfl[0] = 0
                return probs
            results.append(("map-n%d-mc%s" % (n, mc), explore(mk, check, depth if n >= 2 else 2, seed=seed, extra=10)))
            if n >= 2:
                batching = bool(mc) and mc < n
                results.append(("map-n%d-mc%s/replies" % (n, mc), explore(mk, check, 4, width=2, seed=seed, extra=5, mode="replies")))
                results.append(("map-n%d-mc%s/reply-order" % (n, mc), explore(mk, check, 5, width=3, seed=seed, extra=5,
                                                                               mode="replies-last")))
    # nested fan-outs: a MaxConcurrency Map inside a Parallel branch, a Parallel inside a Map iteration, a Map inside a Map
    # (the join of the inner state must hand over to the NEXT state of its own branch, and only the outer join ends the state)
    for name, asl, data, tasks, want in nested_machines():
        def mk(asl=asl, data=data, tasks=tasks):
            return S.Sim(asl, data, tasks=tasks)

        def check(sim, trace, want=want):
            probs = S.generic_invariants(sim)
            if sim.output() != want:
                probs.append("C05: nested output %r, position-wise result is %r" % (sim.output(), want))
            starts = [i for i, p in enumerate(sim.published) if p["context"].get("State", {}).get("Name") == "After"]
            if len(starts) != 1:
                probs.append("C05: state after the outer join entered %d times" % len(starts))
            return probs
        results.append((name, explore(mk, check, 4, width=3, seed=seed, extra=10)))
        results.append((name + "/replies", explore(mk, check, 4, width=2, seed=seed, extra=5, mode="replies")))
    # a nested Parallel that fails and is caught by its own Catch inside a healthy outer Parallel: the outer join must
    # still hold every branch's own output (scenario shared with the C06 stand-in, known findings included)
    from natives import c06
    r = c06.failures(seed=seed, tier=tier, only="nested-inner-caught")
    results.append(("nested-inner-caught", r))
    out = merge(results, "join")
    out["known"] = r.get("known", [])
    return out


def nested_machines():
    inner_map = lambda mc: dict({"Type": "Map", "ItemsPath": "$.items", "End": True,
                                 "ItemProcessor": {"StartAt": "W", "States": {"W": task("work")}}},
                                **({"MaxConcurrency": mc} if mc is not None else {}))
    work = {"work": lambda p, c: {"done": p["i"]}, "side": lambda p, c: {"side": 1}}
    items = [{"i": i} for i in range(3)]
    out = []
    for mc in (1, 2, None):
        asl = {"StartAt": "P", "States": {
            "P": {"Type": "Parallel", "Next": "After", "Branches": [
                {"StartAt": "M", "States": {"M": inner_map(mc)}},
                {"StartAt": "S", "States": {"S": task("side")}}]},
            "After": {"Type": "Pass", "End": True}}}
        out.append(("map-mc%s-in-parallel" % mc, asl, {"items": items}, work, [[{"done": 0}, {"done": 1}, {"done": 2}], {"side": 1}]))
    asl = {"StartAt": "M", "States": {
        "M": {"Type": "Map", "ItemsPath": "$.rows", "MaxConcurrency": 1, "Next": "After",
              "ItemProcessor": {"StartAt": "I", "States": {"I": inner_map(1)}}},
        "After": {"Type": "Pass", "End": True}}}
    out.append(("map-in-map", asl, {"rows": [{"items": items[:2]}, {"items": items[2:]}]}, work, [[{"done": 0}, {"done": 1}], [{"done": 2}]]))
    asl = {"StartAt": "M", "States": {
        "M": {"Type": "Map", "ItemsPath": "$.items", "MaxConcurrency": 2, "Next": "After",
              "ItemProcessor": {"StartAt": "Q", "States": {"Q": {"Type": "Parallel", "End": True, "Branches": [
                  {"StartAt": "W", "States": {"W": task("work")}}, {"StartAt": "S", "States": {"S": task("side")}}]}}}},
        "After": {"Type": "Pass", "End": True}}}
    out.append(("parallel-in-map", asl, {"items": items}, work, [[{"done": i}, {"side": 1}] for i in range(3)]))
    return out
