"""Bounded stand-in for C19 (never counted as proved): "the address strings used by the engine declare exactly the durable
queues, exchanges and bindings they describe ... the asyncio and blocking transports behave alike".

Destination.parse_address of BOTH transports (real code; `pika` is not installed, a stub module stands in for the import) is
run on a corpus of address strings -- the ones the engine itself builds (shared / per-instance / reply queues, classic and
quorum), the examples of its own documentation, and a generated product of node / link option shapes -- and the resulting
declare / bindings / link settings / name / subject are compared with a reference reading of the documented address grammar.
"""
import copy
import itertools
import json
import sys
import types
from unittest import mock


def _stub_pika():
    if "pika" in sys.modules:
        return
    pika = types.ModuleType("pika")
    pika.__path__ = []
    for n in ("BasicProperties", "URLParameters", "BlockingConnection", "SelectConnection", "ConnectionParameters", "PlainCredentials"):
        setattr(pika, n, mock.MagicMock())
    exc = types.ModuleType("pika.exceptions")
    for n in ("AMQPConnectionError", "AMQPChannelError", "ChannelClosedByBroker", "ConnectionClosedByBroker", "NackError", "UnroutableError",
              "IncompatibleProtocolError", "ChannelClosed", "ConnectionClosed", "ChannelWrongStateError", "StreamLostError", "AMQPError"):
        setattr(exc, n, type(n, (Exception,), {}))
    pika.exceptions = exc
    sys.modules["pika"] = pika
    sys.modules["pika.exceptions"] = exc
    for sub in ("pika.adapters", "pika.adapters.asyncio_connection", "pika.adapters.utils", "pika.adapters.utils.connection_workflow",
                "pika.spec", "pika.channel", "pika.connection"):
        m = types.ModuleType(sub)
        m.__path__ = []
        m.__getattr__ = lambda name: mock.MagicMock()
        sys.modules[sub] = m
    pika.adapters = sys.modules["pika.adapters"]
    pika.adapters.asyncio_connection = sys.modules["pika.adapters.asyncio_connection"]


def _modules():
    _stub_pika()
    import importlib
    return {"asyncio": importlib.import_module("asl_workflow_engine.amqp_0_9_1_messaging_asyncio"),
            "blocking": importlib.import_module("asl_workflow_engine.amqp_0_9_1_messaging")}


DECLARE0 = {"queue": "", "exchange": "", "exchange-type": "direct", "passive": False, "internal": False, "durable": False,
            "exclusive": False, "auto-delete": False, "arguments": None}
LINK0 = {"queue": "", "passive": False, "internal": False, "durable": False, "exclusive": True, "auto-delete": True, "arguments": None}
SUB0 = {"exclusive": False, "arguments": None}


def reference(address):
    """The documented reading:  <name> [ / <subject> ] [ ; <options> ]  with node.x-declare overriding the declare defaults,
    node.durable / node.auto-delete as shortcuts, node.x-bindings, link.x-declare, link.x-subscribe."""
    kv = address.split(";")
    opts = kv[1] if len(kv) == 2 else "{}"
    ns = kv[0].split("/")
    subject = ns[1].strip() if len(ns) == 2 else ""
    name = ns[0].strip()
    if len(name) >= 2 and name[0] == "{":
        opts, name = name, ""
    o = json.loads(opts)
    declare, link, sub, bindings = dict(DECLARE0), dict(LINK0), dict(SUB0), []
    node = o.get("node")
    if node:
        xd = node.get("x-declare")
        if xd and isinstance(xd, dict):
            declare.update(xd)
            if name:
                if node.get("type") == "queue" and not declare.get("queue"):
                    declare["queue"] = name
                if node.get("type") == "topic" and not declare.get("exchange"):
                    declare["exchange"] = name
            else:
                if node.get("type") == "queue":
                    name = declare.get("queue", "")
                if node.get("type") == "topic":
                    name = declare.get("exchange", "")
                if not name:
                    name = declare.get("exchange", "")
                if not name:
                    name = declare.get("queue", "")
        if node.get("durable"):
            declare["durable"] = True
        if node.get("auto-delete"):
            declare["auto-delete"] = True
        xb = node.get("x-bindings")
        if xb and isinstance(xb, list):
            bindings = xb
    lk = o.get("link")
    if lk:
        xd = lk.get("x-declare")
        if xd and isinstance(xd, dict):
            link.update(xd)
        xs = lk.get("x-subscribe")
        if xs and isinstance(xs, dict):
            sub.update(xs)
    return {"name": name, "subject": subject, "declare": declare, "bindings": bindings, "link_declare": link, "link_subscribe": sub}


DOC_EXAMPLES = [
    'myqueue; {"node": {"x-declare": {"durable": true, "exclusive": true, "auto-delete": true}}}',
    'myqueue; {"node": {"x-declare": {"exchange": "test-headers", "exchange-type": "headers", "durable": true, "auto-delete": true}}}',
    'myqueue; {"node": {"x-declare": {"durable": true, "auto-delete": true}, "x-bindings": [{"exchange": "amq.match", "queue": "myqueue", '
    '"key": "data1", "arguments": {"x-match": "all", "data-service": "amqp-delivery", "item-owner": "Sauron"}}]}}',
    'myqueue; {"node": {"durable": true, "x-bindings": [{"exchange": "amq.match", "queue": "myqueue", "key": "data1", "arguments": '
    '{"x-match": "all"}}, {"exchange": "amq.match", "queue": "myqueue", "key": "data2", "arguments": {"x-match": "all"}}]}}',
    'myqueue; {"node": {"x-declare": {"durable": true, "auto-delete": false}}, "link": {"x-subscribe": {"exclusive": true}}}',
    'news-service/sports',
    'news-service/sports; {"node": {"x-declare": {"exchange": "news-service", "exchange-type": "topic"}}}',
    'news-service/sports; {"node": {"x-declare": {"exchange": "news-service", "exchange-type": "topic", "auto-delete": true}}, '
    '"link": {"x-declare": {"queue": "news-queue", "exclusive": false}}}',
    '; {"node": {"x-declare": {"exchange": "news-service", "exchange-type": "topic"}}}',
    '{"node": {"x-declare": {"exchange": "news-service", "exchange-type": "topic"}}}',
    'plain', ' spaced / subj ', 'asl_workflow_events',
]


def engine_addresses():
    out = []
    for xd in ("", ', "x-declare": {"arguments": {"x-queue-type": "quorum"}}'):
        for q in ("asl_workflow_events", "asl_workflow_events-instance-0", "asl_workflow_engine_reply_to-abc"):
            out.append(q + '; {"node": {"durable": true' + xd + '}}')
            out.append(q + '; {"node": {"durable": true' + xd + '}, "link": {"x-subscribe": {"exclusive": true}}}')
            out.append(q + '; {"node": {"durable": true' + xd + '}, "link": {"x-subscribe": {"arguments": {"x-priority": 10}}}}')
    return out


def generated(tier):
    nodes = [None, {}, {"durable": True}, {"auto-delete": True}, {"durable": False}, {"durable": True, "auto-delete": True},
             {"x-declare": {"arguments": {"x-queue-type": "quorum"}}},
             {"durable": True, "x-declare": {"arguments": {"x-queue-type": "quorum"}}},
             {"auto-delete": True, "x-declare": {"exclusive": True}},
             {"durable": True, "x-declare": {"durable": False}},
             {"x-declare": {"durable": True}}, {"x-declare": {}}, {"durable": True, "x-declare": {}},
             {"type": "queue", "x-declare": {"passive": True}}, {"type": "topic", "durable": True, "x-declare": {"exchange-type": "fanout"}},
             {"type": "queue", "x-declare": {"queue": "other"}}, {"x-declare": "notadict", "durable": True},
             {"durable": True, "x-bindings": [{"exchange": "amq.topic", "queue": "q", "key": "k"}]},
             {"x-bindings": []}, {"x-bindings": "nope", "auto-delete": True}]
    links = [None, {}, {"x-subscribe": {"exclusive": True}}, {"x-declare": {"queue": "lq", "exclusive": False}},
             {"x-declare": {"durable": True}, "x-subscribe": {"arguments": {"x-priority": 10}}}, {"x-subscribe": "x"}]
    heads = ["q1", "ex/key", ""]
    if tier != "thorough":
        links = links[:5]
    for h, n, l in itertools.product(heads, nodes, links):
        o = {}
        if n is not None:
            o["node"] = n
        if l is not None:
            o["link"] = l
        if not h and not o:
            continue
        yield (h + "; " if h else "") + json.dumps(o) if (o or not h) else h
        if not h and o:
            yield "; " + json.dumps(o)


def addresses(seed=0, tier="quick", **_):
    mods = _modules()
    corpus = engine_addresses() + DOC_EXAMPLES + list(generated(tier))
    n = 0
    for addr in corpus:
        want = reference(addr)
        got = {}
        for which, mod in sorted(mods.items()):
            n += 1
            d = mod.Destination()
            # the constructor defaults are part of what an address "describes" (it only states overrides)
            for fld, ref0 in (("declare", DECLARE0), ("link_declare", LINK0), ("link_subscribe", SUB0)):
                if getattr(d, fld) != ref0:
                    return {"failed": True, "evaluations": n, "input": {"transport": which, "field": fld},
                            "detail": "[%s] Destination() default %s is %r, documented default %r" % (which, fld, getattr(d, fld), ref0)}
            try:
                d.parse_address(addr)
            except Exception as e:
                return {"failed": True, "evaluations": n, "input": {"transport": which, "address": addr},
                        "detail": "[%s] parse_address(%r) raised %s: %s" % (which, addr, type(e).__name__, e)}
            got[which] = {"name": d.name, "subject": d.subject, "declare": d.declare, "bindings": d.bindings,
                          "link_declare": d.link_declare, "link_subscribe": d.link_subscribe}
            for k in want:
                if got[which][k] != want[k]:
                    return {"failed": True, "evaluations": n, "input": {"transport": which, "address": addr, "field": k},
                            "detail": "[%s] parse_address(%r): %s is %r, the address describes %r" % (which, addr, k, got[which][k], want[k])}
        if got["asyncio"] != got["blocking"]:
            return {"failed": True, "evaluations": n, "input": {"address": addr},
                    "detail": "transports disagree on %r: %r vs %r" % (addr, got["asyncio"], got["blocking"])}
    return {"failed": False, "evaluations": n, "distinct": len(set(corpus)), "exhaustive": False,
            "samples": [{"address": corpus[1]}, {"address": corpus[-1]}]}
