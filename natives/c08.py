"""Bounded stand-ins for C08 (never counted as proved): the numeric-offset arithmetic of parse_rfc3339_datetime,
which the string solvers leave undecided.  The offset space is finite: EVERY offset -23:59..+23:59 is enumerated
(exhaustive in that dimension); date-time fields are a small fixed sample."""
import datetime as _dt


def all_offsets(seed=0, tier="quick", **_):
    from asl_workflow_engine.state_engine import parse_rfc3339_datetime
    heads = ["2024-02-29T23:59:59", "1999-12-31T00:00:00.123456", "2025-06-15T12:30:45.5"]
    if tier == "thorough":
        heads += ["2000-01-01T00:00:00.000001", "2038-01-19T03:14:07", "1970-01-01T00:00:00.9"]
    n = 0
    samples = []
    for head in heads:
        fields = head if "." in head else head + ".0"
        naive = _dt.datetime.strptime(fields, "%Y-%m-%dT%H:%M:%S.%f")
        for sign in ("+", "-"):
            for hh in range(24):
                for mm in range(60):
                    text = "%s%s%02d:%02d" % (head, sign, hh, mm)
                    secs = (3600 * hh + 60 * mm) * (1 if sign == "+" else -1)
                    want = naive.replace(tzinfo=_dt.timezone.utc).timestamp() - secs
                    n += 1
                    try:
                        got = parse_rfc3339_datetime(text).timestamp()
                    except Exception as e:
                        return {"failed": True, "evaluations": n, "input": text,
                                "detail": "%s raised %s: %s" % (text, type(e).__name__, e)}
                    if abs(got - want) > 1e-6:
                        return {"failed": True, "evaluations": n, "input": text,
                                "detail": "parse_rfc3339_datetime(%r).timestamp() == %r, true instant %r (offset read as %+d s, "
                                          "should be %+d s)" % (text, got, want, round(want + secs - got), secs)}
                    if len(samples) < 3 and mm % 17 == 5:
                        samples.append(text)
        want = naive.replace(tzinfo=_dt.timezone.utc).timestamp()
        n += 1
        if abs(parse_rfc3339_datetime(head + "Z").timestamp() - want) > 1e-6:
            return {"failed": True, "evaluations": n, "input": head + "Z", "detail": "Z form wrong"}
    return {"failed": False, "evaluations": n, "distinct": n, "exhaustive": True, "samples": samples}
