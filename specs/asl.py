"""
Spec functions (oracles), written from the States Language text
(https://states-language.net/spec.html#filters).  AP / EPT / RP are the
uninterpreted symbols for apply_path / evaluate_payload_template /
apply_resultpath; everything else is ordinary Python in the verified subset.

"The value of InputPath selects a portion of the state's input to be passed to
the state's task; Parameters (a Payload Template) is then applied; the state's
work produces a result; ResultSelector reshapes it; ResultPath combines it with
the *raw* input; OutputPath selects the portion that becomes the state output."
"""


def effective_input(state, raw, context):
    return AP(raw, context, state.get("InputPath", "$"))


def pass_output(state, raw, context):
    """Pass: Result if present, else the effective input after Parameters; then ResultPath, OutputPath."""
    parameters = EPT(effective_input(state, raw, context), context, state.get("Parameters"))
    result = state.get("Result", parameters)
    return AP(RP(raw, result, state.get("ResultPath", "$")), context, state.get("OutputPath", "$"))


def task_output(state, raw, context, task_result):
    """Task: ResultSelector on the task's result, ResultPath into the RAW input, OutputPath."""
    selected = EPT(task_result, context, state.get("ResultSelector"))
    return AP(RP(raw, selected, state.get("ResultPath", "$")), context, state.get("OutputPath", "$"))


def io_only_output(state, raw, context):
    """Choice / Wait / Succeed: InputPath then OutputPath, no result."""
    return AP(effective_input(state, raw, context), context, state.get("OutputPath", "$"))


def task_error_type(result):
    """How the engine reads a task result: a dict with a truthy Error is States.TaskFailed, otherwise the
    dispatcher's errorType ('' when absent); anything that is not a dict is a plain result."""
    if isdict(result):
        if result.get("Error"):
            return "States.TaskFailed"
        return result.get("errorType", "")
    return None


def task_result_is_error(result):
    return True if task_error_type(result) else False


def task_timeout_ms(exec_start, exec_timeout_s, state_entered, state_timeout_s, now):
    """C08: min(task deadline, execution deadline) - now, in milliseconds, never negative."""
    t1 = (exec_start + real(exec_timeout_s) - now) * 1000
    t1 = rmax(t1, 0)
    t2 = (state_entered + real(state_timeout_s) - now) * 1000
    t2 = rmax(t2, 0)
    return rmin(t1, t2)


def wait_ms(exec_start, exec_timeout_s, target, now):
    """C08: a Wait completes at max(now, min(target, execution deadline)): never early, exact when not late."""
    t1 = rmax((exec_start + real(exec_timeout_s) - now) * 1000, 0)
    t2 = rmax((target - now) * 1000, 0)
    return rmin(t1, t2)


def wait_uses_seconds(state):
    return True if state.get("Seconds") else False


def wait_uses_timestamp(state):
    return True if (not state.get("Seconds") and not state.get("SecondsPath") and state.get("Timestamp")) else False
