"""
Spec functions (oracles), written from the States Language text
(https://states-language.net/spec.html#filters).  AP / EPT / RP are the
uninterpreted symbols for apply_path / evaluate_payload_template /
apply_resultpath; everything else is ordinary Python in the verified subset.

"The value of InputPath selects a portion of the state's input to be passed to
the state's task; Parameters (a Payload Template) is then applied; the state's
work produces a result; ResultSelector reshapes it; ResultPath combines it with
the *raw* input; OutputPath selects the portion that becomes the state output."
"""


def effective_input(state, raw, context):
    return AP(raw, context, state.get("InputPath", "$"))


def pass_output(state, raw, context):
    """Pass: Result if present, else the effective input after Parameters; then ResultPath, OutputPath."""
    parameters = EPT(effective_input(state, raw, context), context, state.get("Parameters"))
    result = state.get("Result", parameters)
    return AP(RP(raw, result, state.get("ResultPath", "$")), context, state.get("OutputPath", "$"))


def task_output(state, raw, context, task_result):
    """Task: ResultSelector on the task's result, ResultPath into the RAW input, OutputPath."""
    selected = EPT(task_result, context, state.get("ResultSelector"))
    return AP(RP(raw, selected, state.get("ResultPath", "$")), context, state.get("OutputPath", "$"))


def io_only_output(state, raw, context):
    """Choice / Wait / Succeed: InputPath then OutputPath, no result."""
    return AP(effective_input(state, raw, context), context, state.get("OutputPath", "$"))
