"""
Spec functions (oracles), written from the States Language text
(https://states-language.net/spec.html#filters).  AP / EPT / RP are the
uninterpreted symbols for apply_path / evaluate_payload_template /
apply_resultpath; everything else is ordinary Python in the verified subset.

"The value of InputPath selects a portion of the state's input to be passed to
the state's task; Parameters (a Payload Template) is then applied; the state's
work produces a result; ResultSelector reshapes it; ResultPath combines it with
the *raw* input; OutputPath selects the portion that becomes the state output."
"""


def effective_input(state, raw, context):
    return AP(raw, context, state.get("InputPath", "$"))


def pass_output(state, raw, context):
    """Pass: Result if present, else the effective input after Parameters; then ResultPath, OutputPath."""
    parameters = EPT(effective_input(state, raw, context), context, state.get("Parameters"))
    result = state.get("Result", parameters)
    return AP(RP(raw, result, state.get("ResultPath", "$")), context, state.get("OutputPath", "$"))


def task_output(state, raw, context, task_result):
    """Task: ResultSelector on the task's result, ResultPath into the RAW input, OutputPath."""
    selected = EPT(task_result, context, state.get("ResultSelector"))
    return AP(RP(raw, selected, state.get("ResultPath", "$")), context, state.get("OutputPath", "$"))


def io_only_output(state, raw, context):
    """Choice / Wait / Succeed: InputPath then OutputPath, no result."""
    return AP(effective_input(state, raw, context), context, state.get("OutputPath", "$"))


def task_error_type(result):
    """How the engine reads a task result: a dict with a truthy Error is States.TaskFailed, otherwise the
    dispatcher's errorType ('' when absent); anything that is not a dict is a plain result."""
    if isdict(result):
        if result.get("Error"):
            return "States.TaskFailed"
        return result.get("errorType", "")
    return None


def task_result_is_error(result):
    return True if task_error_type(result) else False


def task_timeout_ms(exec_start, exec_timeout_s, state_entered, state_timeout_s, now):
    """C08: min(task deadline, execution deadline) - now, in milliseconds, never negative."""
    t1 = (exec_start + real(exec_timeout_s) - now) * 1000
    t1 = rmax(t1, 0)
    t2 = (state_entered + real(state_timeout_s) - now) * 1000
    t2 = rmax(t2, 0)
    return rmin(t1, t2)


def wait_ms(exec_start, exec_timeout_s, target, now):
    """C08: a Wait completes at max(now, min(target, execution deadline)): never early, exact when not late."""
    t1 = rmax((exec_start + real(exec_timeout_s) - now) * 1000, 0)
    t2 = rmax((target - now) * 1000, 0)
    return rmin(t1, t2)


def wait_uses_seconds(state):
    return True if state.get("Seconds") else False


def wait_uses_timestamp(state):
    return True if (not state.get("Seconds") and not state.get("SecondsPath") and state.get("Timestamp")) else False


# ---------------------------------------------------------------------------------------------------------------
# Retry / Catch (https://states-language.net/spec.html#errors)
# "...scans through the Retriers in array order ... the first one whose ErrorEquals contains the Error Name ..."
# "States.ALL is a wildcard which matches any Error Name [it must appear alone]"; States.TaskFailed is treated by
# this engine (as by AWS) as a wildcard for task failures.  Unrecoverable: States.Runtime, the engine's
# States.ExecutionTimeout and Task.Terminated are neither retried nor caught.
# ---------------------------------------------------------------------------------------------------------------

def err_unrecoverable(error_type):
    return error_type == "States.Runtime" or error_type == "States.ExecutionTimeout" or error_type == "Task.Terminated"


def err_matches(rule, error_type):
    ee = rule.get("ErrorEquals")
    return (error_type in ee) or ("States.TaskFailed" in ee) or (len(ee) == 1 and ee[0] == "States.ALL")


def rule_list(state, field):
    """the Retry / Catch array of the state, [] when absent (or not a non-empty array)"""
    v = state.get(field)
    if v and islist(v):
        return v
    return []


def first_match(rules, error_type):
    """index of the first rule that matches, -1 if none (arrays of up to 3 rules: the verified bound)"""
    if len(rules) > 0 and err_matches(rules[0], error_type):
        return 0
    if len(rules) > 1 and err_matches(rules[1], error_type):
        return 1
    if len(rules) > 2 and err_matches(rules[2], error_type):
        return 2
    return -1


def retry_allowed(retrier, retry_count):
    """at most MaxAttempts retries (default 3; 0 means never)"""
    return retry_count < retrier.get("MaxAttempts", 3)


def retry_delay_ms(retrier, retry_count):
    """IntervalSeconds x BackoffRate^k seconds before the k-th retry (defaults 1 and 2.0; rate at least 1)"""
    rate = retrier.get("BackoffRate", 2.0)
    if rate < 1.0:
        rate = 1.0
    return retrier.get("IntervalSeconds", 1) * upow(rate, retry_count) * 1000
