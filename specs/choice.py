"""
Choice rule operators (https://states-language.net/spec.html#choice-state), per operator:
"...the comparison operator's value is compared with the field located by Variable ... the state machine
interpreter MUST ... the types must match the operator" -- a value comparison matches exactly when the Variable
exists, has the type the operator is defined for, the constant has that type too, and the relation holds.
`missing` is true when the Variable path matched nothing.
"""


def cmp_bool(variable, missing, value):
    return (not missing) and isbool(variable) and isbool(value) and variable == value


def both_num(variable, missing, value):
    return (not missing) and isnum(variable) and isnum(value)


def both_str(variable, missing, value):
    return (not missing) and isstr(variable) and isstr(value)
