"""
RFC 3339 (https://www.ietf.org/rfc/rfc3339.txt) section 5.6:

   time-numoffset  = ("+" / "-") time-hour ":" time-minute
   time-offset     = "Z" / time-numoffset
   date-time       = full-date "T" partial-time time-offset

"the offset from UTC ... local time = UTC + offset", so the instant is the calendar fields minus the offset,
the offset being (hours * 60 + minutes) minutes with the sign given.
"""


def rfc3339_offset_seconds(s):
    if s[-1] == "Z":
        return 0
    off = s[-6:]
    secs = 3600 * int(off[1:3]) + 60 * int(off[4:6])
    return -secs if off[0] == "-" else secs


def rfc3339_fields_text(s):
    """the date-time without its offset, with a fraction (what the parser hands to strptime)"""
    date = s[:-1] if s[-1] == "Z" else s[:-6]
    if "." not in date:
        date = date + ".0"
    return date


def numoffset_shape(s, sign):
    """What the grammar says about the END of a date-time with a numeric offset (lemma c08_time.tail_*):
    ... D sign D D : D D, at least the 19 characters of the date-time before it, no surrounding white space."""
    return (len(s) >= 25 and s[-6] == sign and re_full("[0-9]{2}", s[-5:-3]) and s[-3] == ":"
            and re_full("[0-9]{2}", s[-2:]) and re_full("[0-9]", s[0]))


def zulu_shape(s):
    return len(s) >= 20 and s[-1] == "Z" and re_full("[0-9]", s[0])
