#!/bin/bash
# tools/with_patch.sh <sed-expression> <file relative to asl-workflow-engine/py> -- <check args...>
# Runs a check against a scratch copy of the repository with one textual change applied (teeth tests).
set -e
SED="$1"; FILE="$2"; shift 2; [ "$1" = "--" ] && shift
S=$(mktemp -d /tmp/lsf_scratch_XXXX)
mkdir -p $S/asl-workflow-engine
cp -r /repo/asl-workflow-engine/py $S/asl-workflow-engine/py
sed -i "$SED" "$S/asl-workflow-engine/py/$FILE"
diff -r /repo/asl-workflow-engine/py $S/asl-workflow-engine/py | head -8 || true
set +e
LSF_REPO=$S /verif/check "$@"
rc=$?
rm -rf $S
exit $rc
