#!/usr/bin/env python3
"""Regenerate /verif/MANIFEST.json from /verif/claims.py (one table: what is claimed, at which level, and why not)."""
import json
import os
import sys

VERIF = os.path.dirname(os.path.dirname(os.path.abspath(__file__)))
sys.path.insert(0, VERIF)
import claims  # noqa

ALL = ["C%02d" % i for i in range(1, 21)]


def main():
    checks = []
    for pid in ALL:
        c = claims.CLAIMS.get(pid)
        if not c:
            continue
        checks.append({
            "property_id": pid,
            "quick_cmd": "./check %s --tier quick" % pid,
            "thorough_cmd": "./check %s --tier thorough" % pid,
            "evidence_file": "evidence/%s.json" % pid,
            "replay_cmd_template": "./check %s --replay {path}" % pid,
            "engine": "pyvc",
            "level_claimed": {"category": c["category"], "text": c["text"], "design_ref": c.get("design_ref", "DESIGN.md section 4 " + pid)},
            "level_note": c["note"],
            "technique": c.get("technique", claims.TECHNIQUE),
        })
    na = []
    for pid in ALL:
        if pid in claims.CLAIMS:
            continue
        na.append({"property_id": pid, "reason": claims.NOT_APPLICABLE.get(pid, "check not built yet; see DESIGN.md section 4")})
    m = {
        "version": 1,
        "setup_cmd": claims.SETUP_CMD,
        "hooks": {
            "guard": "LSF_VERIF",
            "enable": "no source hooks: the verifier reads /repo source text (sidecar contracts); LSF_VERIF is reserved and unused",
            "baseline_off_cmd": "cd /repo && /venv/bin/python -m pytest -ra -q -p no:cacheprovider --timeout=900 --continue-on-collection-errors",
            "source_commits": [],
            "add_only": True,
        },
        "engines": [{"name": "pyvc", "path": "pyvc/", "serves_properties": sorted(claims.CLAIMS),
                     "kind_free_text": "contract-based deductive verifier built here: symbolic execution of the real /repo source (ast, re-read on every run) "
                                       "against sidecar contracts in contracts/, one SMT query per obligation, z3 5.1 / cvc5 1.0.3 / z3 4.8 portfolio; "
                                       "bounded native stand-ins (natives/) are labelled bounded and never counted as proved"}],
        "checks": checks,
        "not_applicable": na,
        "notes": claims.NOTES,
    }
    json.dump(m, open(os.path.join(VERIF, "MANIFEST.json"), "w"), indent=1)
    print("MANIFEST.json: %d checks, %d not_applicable" % (len(checks), len(na)))


if __name__ == "__main__":
    main()
