#!/usr/bin/env python3
"""tools/collect_known.py (development time, never run by a check): for every known finding that names a simulation scenario,
enumerate on the CURRENT tree the histories (exploration mode + choice sequence) in which its signatures occur, at both tiers,
and store them as scenario.schedules in known_findings.json.  Run by /venv/bin/python after a finding was added."""
import json, os, sys
VERIF = os.path.dirname(os.path.dirname(os.path.abspath(__file__)))
sys.path.insert(0, VERIF); sys.path.insert(0, os.environ.get("LSF_REPO", "/repo") + "/asl-workflow-engine/py")
os.environ["KNOWN_COLLECT"] = "1"
from natives import known, c06, c01
for tier in ("quick", "thorough"):
    for seed in (0, 1):
        c06.failures(seed=seed, tier=tier)
        c01.corpus(seed=seed, tier=tier)
p = os.path.join(VERIF, "known_findings.json")
d = json.load(open(p))
for f in d["findings"]:
    if f.get("scenario") and f["id"] in known.COLLECTED:
        f["scenario"]["schedules"] = sorted(known.COLLECTED[f["id"]])
        print(f["id"], len(f["scenario"]["schedules"]))
json.dump(d, open(p, "w"), indent=1)
