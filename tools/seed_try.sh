#!/bin/bash
# tools/seed_try.sh <seed id> <check> [check args...] : run one check against a seeded regression on a scratch copy of /repo
# (never touches /repo, writes no evidence and no meta.json).
S="$1"; shift
SC=$(mktemp -d /tmp/lsf_try_XXXX)
mkdir -p $SC/asl-workflow-engine; cp -r /repo/asl-workflow-engine/py $SC/asl-workflow-engine/py
( cd $SC && patch -p1 -s -i /verif/seeded/$S/patch.diff ) || { rm -rf $SC; exit 2; }
LSF_REPO=$SC PYVC_NO_EVIDENCE=1 PYVC_REPLAY_DIR=$SC/replay /verif/check "$@"; rc=$?
rm -rf $SC; exit $rc
