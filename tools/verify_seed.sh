#!/bin/bash
# tools/verify_seed.sh <dir with patch.diff demo.py> : confirm a seeded regression in a scratch worktree
# (demo passes on clean tree, fails with the patch, baseline tests still pass). Prints one JSON line.
D="$1"
WT=$(mktemp -d /tmp/vseed_XXXX); rmdir $WT
git -C /repo worktree add -q --detach $WT HEAD || exit 2
cd $WT
/venv/bin/python $D/demo.py $WT > $WT/.clean.out 2>&1; c=$?
git apply $D/patch.diff || { echo "{\"dir\":\"$D\",\"error\":\"patch does not apply\"}"; git -C /repo worktree remove --force $WT; exit 2; }
/venv/bin/python $D/demo.py $WT > $WT/.patched.out 2>&1; p=$?
/venv/bin/python -m pytest -q -p no:cacheprovider --timeout=900 --continue-on-collection-errors 2>&1 | tail -1 > $WT/.tests.out
t=$(cat $WT/.tests.out)
echo "{\"dir\":\"$D\",\"demo_clean_exit\":$c,\"demo_patched_exit\":$p,\"tests\":\"$t\"}"
cd /; git -C /repo worktree remove --force $WT
