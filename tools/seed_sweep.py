#!/usr/bin/env python3
"""tools/seed_sweep.py [seed ...] : run the checks against every seeded regression, each on its own scratch copy of the
repository (so that /repo is never touched and sweeps can run in parallel with other work).  Writes seeded/<id>/meta.json."""
import json, os, shutil, subprocess, sys, tempfile
from concurrent.futures import ThreadPoolExecutor

VERIF = os.path.dirname(os.path.dirname(os.path.abspath(__file__)))
# which checks to run for a seed, beyond the check of the property it was written against
ALSO = {"C01": ["C06", "C12", "C13", "C07"], "C03": ["C06"], "C05": ["C06"], "C08": ["C06"], "C02": ["C06", "C05", "C15"], "C09": ["C06", "C07"],
        "C04": ["C05", "C06", "C19", "C03"], "C11": ["C02", "C15", "C06"], "C15": ["C06"], "C16": ["C09"], "C13": ["C01"], "C06": ["C03"]}
CLAIMED = set(json.load(open(os.path.join(VERIF, "MANIFEST.json")))and [c["property_id"] for c in json.load(open(os.path.join(VERIF, "MANIFEST.json")))["checks"]])


def run_seed(sid):
    d = os.path.join(VERIF, "seeded", sid)
    prop = sid.split("-")[0]
    scratch = tempfile.mkdtemp(prefix="lsf_seed_")
    try:
        os.makedirs(os.path.join(scratch, "asl-workflow-engine"))
        shutil.copytree("/repo/asl-workflow-engine/py", os.path.join(scratch, "asl-workflow-engine", "py"))
        p = subprocess.run(["patch", "-p1", "-s", "-i", os.path.join(d, "patch.diff")], cwd=scratch, capture_output=True, text=True)
        if p.returncode != 0:
            return sid, {"error": "patch does not apply to the current tree: " + (p.stdout + p.stderr)[-300:]}
        results = {}
        for chk in [prop] + ALSO.get(prop, []):
            if chk not in CLAIMED:
                continue
            env = dict(os.environ, LSF_REPO=scratch, PYVC_NO_EVIDENCE="1", PYVC_REPLAY_DIR=os.path.join(scratch, "replay"))
            r = subprocess.run([os.path.join(VERIF, "check"), chk], env=env, capture_output=True, text=True)
            lines = [l for l in r.stdout.split("\n") if l.startswith(("VIOLATION", "UNDECIDED", "CHECKER-ERROR"))]
            results[chk] = {"exit": r.returncode,
                            "violations": [l.split("obligation=")[-1][:160] for l in lines if l.startswith("VIOLATION")][:6],
                            "other": [l[:160] for l in lines if not l.startswith("VIOLATION")][:3]}
        return sid, {"checks": results, "caught_by": sorted(k for k, v in results.items() if v["exit"] == 1)}
    finally:
        shutil.rmtree(scratch, ignore_errors=True)


def main():
    seeds = sys.argv[1:] or sorted(os.listdir(os.path.join(VERIF, "seeded")))
    with ThreadPoolExecutor(max_workers=int(os.environ.get("SWEEP_WORKERS", "3"))) as pool:
        for sid, res in pool.map(run_seed, seeds):
            d = os.path.join(VERIF, "seeded", sid)
            am = {}
            try:
                am = json.load(open(os.path.join(d, "agent_meta.json")))
            except Exception:
                pass
            meta = {"seed": sid, "property_broken": sid.split("-")[0], "summary": am.get("summary"),
                    "what_it_needs_to_manifest": am.get("what_it_needs_to_manifest"), "files": am.get("files"),
                    "origin": "written by an independent sub-agent given only the property text and a scratch worktree",
                    "confirmed_by_me": "tools/verify_seed.sh: demo exits 0 on the clean tree, 1 with the patch, and the 66 baseline tests still pass",
                    "sweep": res}
            try:
                meta["note"] = open(os.path.join(d, "note.txt")).read().strip()
            except Exception:
                pass
            json.dump(meta, open(os.path.join(d, "meta.json"), "w"), indent=1)
            print(sid, res.get("caught_by"), res.get("error", ""))


if __name__ == "__main__":
    main()
