#!/usr/bin/env python3
"""tools/nocomment.py FILE START END -- print source lines without comment strings / # comments / blanks (reading aid)."""
import ast, sys
path, a, b = sys.argv[1], int(sys.argv[2]), int(sys.argv[3])
src = open(path).read()
tree = ast.parse(src)
lines = src.split('\n')
drop = set()
for n in ast.walk(tree):
    if isinstance(n, ast.Expr) and isinstance(n.value, ast.Constant) and isinstance(n.value.value, str):
        for i in range(n.lineno, n.end_lineno + 1):
            drop.add(i)
for i, l in enumerate(lines, 1):
    if i in drop or l.strip().startswith('#') or not l.strip():
        continue
    if a <= i <= b:
        print("%d\t%s" % (i, l))
