#!/bin/bash
# tools/try_seed.sh <seed id, e.g. C03-2> <prop> [<prop>...] : apply a seeded regression to /repo, run checks, undo.
S=/verif/seeded/$1; shift
git -C /repo apply $S/patch.diff || exit 2
for p in "$@"; do
  /verif/check $p 2>&1 | grep -E "^pyvc|VIOLATION|UNDECIDED|CHECKER-ERROR|KNOWN" | sed 's/replay=[^ ]* //' | cut -c1-260
  echo "exit=$?"
done
git -C /repo checkout -- .
git -C /verif checkout -- evidence 2>/dev/null
