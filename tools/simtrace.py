#!/usr/bin/env python3
"""tools/simtrace.py <module:function-of-scenarios> <scenario> <mode> <schedule json> : replay one schedule, print steps."""
import sys, json
sys.path.insert(0, "/verif"); sys.path.insert(0, (sys.argv[5] if len(sys.argv) > 5 else "/repo") + "/asl-workflow-engine/py")
from natives import sim as S
import importlib
modname, fn = sys.argv[1].split(":")
sc = getattr(importlib.import_module(modname), fn)()[sys.argv[2]]
mode, sched = sys.argv[3], json.loads(sys.argv[4])
sm = S.Sim(sc["asl"], sc.get("data", {"x": 1}), tasks=sc["tasks"])
orig = sm.step
def step(c):
    acts = sm.enabled()
    a = acts[c % len(acts)]
    desc = a[0]
    if a[0] == "deliver":
        ev = json.loads(sm.queue[a[1]][1]); desc = "deliver %s state=%s" % (sm.queue[a[1]][0], ev["context"].get("State", {}).get("Name"))
    elif a[0] == "reply":
        desc = "reply to %s (%s)" % (sm.requests[a[1]].subject, sm.requests[a[1]].correlation_id)
    n0 = len(sm.history())
    r = orig(c)
    print("%-45s acks=%s hist+=%s" % (desc, sm.acks[-3:], [e["type"] for e in sm.history()[n0:]]))
    return r
sm.step = step
sm.run(sched, mode=mode)
print("record:", {k: v for k, v in (sm.record() or {}).items() if k in ("status", "error", "output")})
print("unacked:", list(sm.unacknowledged_messages), "branch_metadata:", list(sm.engine.branch_metadata), "cancellers:", list(sm.engine.task_dispatcher.cancellers), "pending:", list(sm.engine.task_dispatcher.pending_requests))
print("problems:", S.generic_invariants(sm))
