from contracts import dispatcher as D, records as R
def build(P):
    D.externals(P.reg)
    R.abstract_arn(P.reg)
    P.verify(D.TD + "TaskDispatcher.handle_rpcmessage_response", D.handle_rpcmessage_response_contract(), timeout=30)
