"""C20 Stores act as dictionaries, persist definitions, and caches are never stale."""
from contracts import store as S


def build(P):
    P.category = "other"
    S.externals(P.reg)
    for name, c in S.jsonstore().items():
        P.verify(c.key, c, tags=("C20",), label="JSONStore." + name, inline_all=True)
    for name, c in S.redisstore().items():
        P.verify(c.key, c, tags=("C20",), label="RedisStore." + name, track_dict_len=(name == "_write_to_cache"))
    P.explanation = "stores"
