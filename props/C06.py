"""C06 A failing branch fails its Parallel/Map once; siblings cannot disturb the result."""


def build(P):
    P.category = "other"
    P.native("failing-branches", "natives.c06:failures", kind="bounded", clause="C06:", timeout=900,
             bound="6 scenario machines (uncaught failure with a task sibling; Catch with ResultPath on the Parallel; Fail state "
                   "ending a branch; error caught inside a branch with a fallback task; Map with Retry then Catch; Wait sibling) x "
                   "every schedule up to 4 choice points (6 at thorough) in three exploration modes + seeded random schedules; real "
                   "StateEngine + real TaskDispatcher (execute_task, reply path, cancel_task), fake broker")
    P.explanation = "failing branches"
