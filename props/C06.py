"""C06 A failing branch fails its Parallel/Map once; siblings cannot disturb the result."""
from contracts import handlers as H


def build(P):
    P.category = "other"
    H.setup(P)
    H.add_handlers(P, ("C06",))
    from contracts import dispatcher as D
    D.externals(P.reg)
    P.verify(D.TD + "TaskDispatcher.branch_has_terminated", D.td_branch_has_terminated_contract(), tags=("C06",), timeout=30)
    D.launch_externals(P.reg)
    from contracts import records as R
    R.abstract_arn(P.reg)
    P.verify(D.ET + "asl_service_rpcmessage", D.rpcmessage_contract(), tags=("C06",), timeout=30)
    P.verify(D.ET + "asl_service_states_startExecution", D.start_execution_launch_contract(), tags=("C06",), timeout=30)
    P.native("failing-branches", "natives.c06:failures", kind="bounded", clause="C06:", timeout=900,
             bound="13 scenario machines (uncaught failure with a task sibling; Catch with ResultPath on the Parallel; Fail state "
                   "ending a branch; error caught inside a branch with a fallback task, alone and with a failing sibling; Map with "
                   "Retry then Catch; Wait sibling; sibling in Retry back-off; nested Parallel whose outer / inner state fails; Map with "
                   "MaxConcurrency failing in an early batch; long-form rpcmessage sibling; caught failure followed by a sibling's own "
                   "error) x every schedule up to 4 choice points (6 at thorough) in three exploration modes, deep interleavings after a "
                   "FIFO warm-up for the nested ones, + seeded random schedules; real StateEngine + real TaskDispatcher, fake broker")
    P.explanation = ("Deductive (handler level): a Task whose branch was terminated while it waited for its start / retry delay is "
                     "not started (termination re-checked in asl_state_Task_delegate), a terminated task's reply reaches handle_error as "
                     "Task.Terminated, a cancelled Wait passes the cancellation error on. Everything quantified over interleavings of "
                     "sibling events is checked only by the bounded stand-in.")
    P.not_decided = ["collect_results error path, check_pending_results, branch_has_terminated (real bodies) are not under discharged contracts"]
