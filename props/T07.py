from contracts import handlers as H, engine as E, errors as ER
def build(P):
    H.setup(P)
    ER.callees(P.reg)
    c = ER.handle_error_contract()
    keep = ("C03:issued", "C07:retry-0-counter", "C07:unhandled-is-terminal", "C07:unrecoverable-bypasses", "C07:catch-0-transition")
    c.ensures = [x for x in c.ensures if x[0] in keep]
    P.verify(E.NOTIFY + "handle_error", c, timeout=40, jobs=16)
