"""C15 Child executions and task-token callbacks complete exactly their launching task."""
from contracts import records as R, engine as E, dispatcher as D
from props import C02


def build(P):
    P.category = "other"
    C02.setup(P)
    # a waiting parent task is completed on every terminal path of the child, before the notification
    P.verify(E.SE + "StateEngine.end_execution", R.end_execution_contract(), tags=("C15",))
    from contracts import handlers as H
    H.setup(P)
    P.reg.externals.insert(0, [e for e in P.reg.externals if e[0] == "self.task_dispatcher.handle_sfn_response"][-1]) if False else None
    H.add_handlers(P, ("C15",))
    D.externals(P.reg)
    D.launch_externals(P.reg)
    R.abstract_arn(P.reg)
    P.verify(D.ET + "asl_service_states_startExecution", D.start_execution_launch_contract(), tags=("C15",), timeout=30)
    from contracts import api as A
    for c in (A.send_task_success_api(), A.send_task_failure_api()):
        P.verify(c.key, c, tags=("C15",), timeout=30, obl_prefix="asyncio." + c.key.split(".")[-1])
    P.native("child-executions", "natives.c15:children", kind="bounded", clause="C15:",
             bound="7 cases on the real engine + task dispatcher: .sync:2 / .sync / startExecution with a succeeding child, a failing "
                   "child, unknown machine, .sync from an EXPRESS parent, startSyncExecution of a STANDARD child (FIFO schedule)")
    P.explanation = ("Deductive: end_execution calls handle_sfn_response with the execution ARN and the final record exactly once on "
                     "every terminal path, before the status notification. Result shape (documented field names, Output as JSON vs "
                     "string), failure mapping and the invalid combinations: bounded stand-in on the real code.")
    P.not_decided = ["token matching inside handle_rpcmessage_response (which pending task a callback message completes) is covered only as "
                     "far as the correlation id carried by the message; InvalidToken for a well-formed but unknown token is not decided",
                     "timing of child completion relative to parent events across a real broker"]
