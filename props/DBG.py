from contracts import engine as E, handlers as H
from pyvc.contracts import _clauses
def build(P):
    H.setup(P)
    c = H.task_delegate_contract()
    W = "n_exec_task == old(n_exec_task) + 1 and isstr(old(state.get('Resource', ''))) and old(state.get('Resource', '')).endswith('.waitForTaskToken')"
    c.ensures = _clauses([
        ("D1", "implies(%s, at_snapshot('exec_heap', haskey(context, 'Task')))" % W),
        ("D2", "implies(%s, at_snapshot('exec_heap', isdict(context['Task']) and haskey(context['Task'], 'Token')))" % W),
        ("D3", "implies(%s, at_snapshot('exec_heap', isstr(context['Task']['Token'])))" % W),
        ("D4", "implies(%s, at_snapshot('exec_heap', context['Task']['Token'].startswith(id)))" % W),
        ("D5", "implies(%s, at_snapshot('exec_heap', context['Task']['Token'].startswith(id + '.waitForTaskToken:')))" % W),
    ])
    P.verify(E.NOTIFY + "asl_state_Task_delegate", c)
