from contracts import engine as E, handlers as H
def build(P):
    P.use_contracts("arn", "engine")
    E.register_paths_abstract(P.reg)
    E.register_notify_callees(P.reg)
    H.externals(P.reg)
    P.spec_module("specs/asl.py")
    c = H.on_response_contract()
    import ast
    extra = [
        ("D1", "implies(old(isdict(result) and result.get('Error')), n_herr == old(n_herr) + 1)"),
        ("D2", "implies(old(isdict(result) and result.get('Error')) and n_herr == old(n_herr) + 1, herr_type == 'States.TaskFailed')"),
        ("D3", "implies(old(isdict(result)) and old(result.get('Error')), herr_type == 'States.TaskFailed')"),
        ("D4", "implies(old(task_error_type(result)) == 'States.TaskFailed', herr_type == 'States.TaskFailed')"),
    ]
    from pyvc.contracts import _clauses
    c.ensures = _clauses(extra)
    P.verify(E.NOTIFY + "asl_state_Task_delegate.<locals>.on_response", c)
