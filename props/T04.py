from contracts import time as T
def build(P):
    P.use_contracts("time")
    P.spec_module("specs/rfc3339.py")
    P.verify("asl_workflow_engine/state_engine.py::parse_rfc3339_datetime")
    T.add_lemmas(P)
