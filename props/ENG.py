from contracts import handlers as H


def build(P):
    H.setup(P)
    H.add_handlers(P, None)
