"""C18 Validator-accepted machines run; uninterpretable ones hurt only themselves."""
from contracts import statelint as SLC, transport as T


def build(P):
    P.category = "other"
    SLC.externals(P.reg)
    P.verify(SLC.J + "FieldTypeConstraint.value_check", SLC.value_check_contract(), tags=("C18",))
    P.verify(SLC.J + "FieldTypeConstraint.report", SLC.report_contract(), tags=("C18",))
    P.verify(SLC.SL + "StateNode.check_States_ALL", SLC.states_all_contract(), tags=("C18",))
    P.verify(SLC.SL + "StateNode.add_next", SLC.add_next_contract(), tags=("C18",))
    # poison events: the dispatcher acknowledges that delivery only and keeps serving
    T.externals(P.reg)
    P.verify(T.ED + "EventDispatcher.dispatch", T.dispatch_contract(), tags=("C18",))
    P.native("validator-total", "natives.c18:validator_total", kind="bounded", clause="C18:",
             bound="4 corpus machines x every single mutation (delete a member; set it to one of 10 JSON values of every type; rename a "
                   "state; retarget StartAt) and the 10 values as whole definitions: StateLint.validate must return a list, never raise")
    P.native("accepted-machines-run", "natives.c18:accepted_machines_run", kind="bounded", clause="C18:",
             bound="corpus + structural single mutants that the validator accepts, each run through the real engine (must not fail as an "
                   "illegal state machine); one known-illegal shape (duplicate state name in sibling branches) must be reported")
    P.explanation = ("Deductive totality (no exception for ANY JSON value) of FieldTypeConstraint.value_check / report, "
                     "StateNode.check_States_ALL (loop invariant) and add_next, with the dangling-target report exact; the dispatcher's "
                     "poison path (dispatch) acknowledges exactly that delivery. The validator as a whole (recursive J2119 role "
                     "resolution) and 'accepted => runs' are bounded stand-ins.")
    P.not_decided = ["validator-accepted => well-formed for the engine, as an implication over all machines (needs a specification of "
                     "J2119 role resolution): bounded only",
                     "the poison paths inside StateEngine.notify (log_and_drop, illegal Type, handler exception) are not yet under contract"]
