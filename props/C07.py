"""C07 Retry and Catch follow the States Language error-handling policy."""
from contracts import handlers as H, engine as E


def build(P):
    P.category = "other"
    H.setup(P)
    # retry counters do not leak to the next state (change_state), the retried attempt is deferred by RetryTimeout (Task)
    P.verify(E.SE + "StateEngine.change_state", tags=("C07",))
    H.add_handlers(P, ("C07",))
    P.native("retry-catch-policy", "natives.c07:retry_catch", kind="bounded", clause="C07:", timeout=900,
             bound="Task state with every ordered list of <= 2 of 5 retriers (1 of the pairs at quick, by seed) and <= 1 (2 at "
                   "thorough) of 3 catchers x 7 worker outcome sequences, in virtual time; plus counter-leak and unrecoverable-error "
                   "cases; real StateEngine + TaskDispatcher against a reference policy")
    P.explanation = ("Deductive: change_state deletes RetryCount / RetryTimeout before publishing the next state (counters do not "
                     "leak), asl_state_Task defers the (re)start by exactly $$.State.RetryTimeout. The retrier / catcher scan of "
                     "handle_error is NOT under a discharged contract (its obligations exceed the solver budgets: contract drafted in "
                     "contracts/errors.py); it is exercised by the bounded stand-in.")
    P.not_decided = ["handle_error's first-match / MaxAttempts / back-off / Error Output obligations: drafted, not discharged (bounded only)"]
