"""C07 Retry and Catch follow the States Language error-handling policy."""
from contracts import handlers as H, engine as E, errors as ER


def build(P):
    P.category = "other"
    H.setup(P)
    ER.callees(P.reg)
    P.verify(E.NOTIFY + "handle_error", ER.handle_error_contract(), tags=("C07",), timeout=60)
    # counter reset lives in change_state; the deferral of the retried attempt in the state entry points
    P.verify(E.SE + "StateEngine.change_state", tags=("C07",))
    H.add_handlers(P, ("C07",))
    P.explanation = "retry/catch"
