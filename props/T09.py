from contracts import dispatcher as D, records as R
def build(P):
    D.externals(P.reg)
    D.launch_externals(P.reg)
    R.abstract_arn(P.reg)
    P.verify(D.ET + "asl_service_rpcmessage", D.rpcmessage_contract(), timeout=30)
