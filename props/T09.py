from contracts import dispatcher as D, records as R
def build(P):
    D.externals(P.reg)
    P.verify(D.TD + "TaskDispatcher.branch_has_terminated", D.td_branch_has_terminated_contract(), timeout=30)
