"""C01 Executions compute what the Amazon States Language prescribes (per-state step obligations)."""
from contracts import handlers as H


def build(P):
    P.category = "other"
    H.setup(P)
    H.add_handlers(P, ("C01",))
    P.explanation = ("Per-state step lemmas proved on the real handlers: the data handed to the next state / terminal route "
                     "equals the States Language pipeline (InputPath, Parameters, work, ResultSelector, ResultPath into the RAW "
                     "input, OutputPath) expressed over uninterpreted AP/EPT/RP, so only calling the real path functions with "
                     "the right arguments in the right order satisfies it; Next/End routing; Fail's Error/Cause; task error typing.")
    P.not_decided = ["composition of the step lemmas into whole-execution outcomes (induction over handled events, A3) is on paper"]
