"""C01 Executions compute what the Amazon States Language prescribes (per-state step obligations)."""
from contracts import handlers as H


def build(P):
    P.category = "other"
    H.setup(P)
    H.add_handlers(P, ("C01",))
    # the transition itself: the next state's name and the state's output are what is published, with the retry
    # bookkeeping of the state just left removed (a leaked counter changes how often the NEXT state is retried)
    from contracts import engine as E
    P.verify(E.SE + "StateEngine.change_state", tags=("C01",))
    P.native("corpus-vs-reference", "natives.c01:corpus", kind="bounded", clause="C01:", timeout=900,
             bound="about 70 generated machines (every state type; 11 InputPath/Parameters/ResultPath/OutputPath variants on Pass and "
                   "Task, ResultSelector, Choice with Default / without, Retry, Catch, Parallel, Map with ItemSelector and MaxConcurrency, "
                   "nesting) x 2 inputs, FIFO plus 3 other schedules for the fan-out machines: terminal status and output (or error "
                   "name) compared with a reference interpreter of the States Language (natives/refasl.py); generic C02/C03/C09 "
                   "invariants on every run")
    P.explanation = ("Per-state step lemmas proved on the real handlers: the data handed to the next state / terminal route "
                     "equals the States Language pipeline (InputPath, Parameters, work, ResultSelector, ResultPath into the RAW "
                     "input, OutputPath) expressed over uninterpreted AP/EPT/RP, so only calling the real path functions with "
                     "the right arguments in the right order satisfies it; Next/End routing; Fail's Error/Cause; task error typing.")
    P.not_decided = ["composition of the step lemmas into whole-execution outcomes (induction over handled events, A3) is on paper"]
