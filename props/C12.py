"""C12 InputPath/OutputPath/ResultPath obey the filter laws and never corrupt data."""
from contracts import paths as PA, engine as E


def build(P):
    P.category = "other"
    PA.ghosts(P.reg)
    P.verify(PA.SP + "apply_jsonpath", PA.apply_jsonpath_contract(), tags=("C12",))
    # apply_path on the real body, with the real apply_jsonpath inlined
    P.verify(PA.SP + "apply_path", PA.apply_path_contract(), tags=("C12",), inline_all=True)
    P.reg.by_key[PA.SP + "apply_resultpath.<locals>.update_path"] = PA.update_path_contract()
    P.verify(PA.SP + "apply_resultpath.<locals>.update_path", PA.update_path_step_contract(), tags=("C12",))
    P.verify(PA.SP + "apply_resultpath", PA.apply_resultpath_contract(), tags=("C12",))
    # merge_result against the abstract (uninterpreted AP / RP) view of the path functions
    E.register_paths_abstract(P.reg)
    P.reg.by_key[PA.SP + "apply_resultpath.<locals>.update_path"] = PA.update_path_contract()
    P.verify(PA.SE + "merge_result", PA.merge_result_contract(), tags=("C12",))
    P.native("resultpath-laws", "natives.c12:resultpath_laws", kind="bounded", clause="C12:",
             bound="all documents of depth <= 2 (3 at thorough), width <= 2 over {0,'',null,false,{},[]}; all reference paths of "
                   "length <= 2 (3) in dot and bracket notation; result fresh / the input itself / each container sub-tree")
    P.native("read-laws", "natives.c12:read_laws", kind="bounded", clause="C12:",
             bound="same documents; all definite dot paths of length <= 2 through the real jsonpath library")
    P.explanation = ("Deductive, on the real bodies: apply_jsonpath / apply_path routing and unwrapping laws relative to the "
                     "assumed jsonpath contract (which document is queried with which expression; '$', null, '$$'; a failed "
                     "match raises, never invents), frame (reads write nothing), update_path one-step placement and exception "
                     "discipline (only ResultPathMatchFailure escapes), apply_resultpath null / '$' laws, merge_result = ResultPath "
                     "then OutputPath. Bounded (labelled): full-depth put/get/frame/aliasing laws and the read laws through the real "
                     "jsonpath library by small-scope exhaustive enumeration.")
    P.not_decided = ["full-depth placement laws deductively (induction over the document with aliasing): bounded stand-in only"]
