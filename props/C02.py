"""C02 Every execution ends exactly once and its terminal record never changes."""
from contracts import records as R, engine as E, handlers as H, errors as ER


def setup(P):
    P.use_contracts("arn", "engine")
    R.abstract_arn(P.reg)
    R.callees(P.reg)              # first: its view of handle_sfn_response must win over the handlers' one
    H.externals(P.reg)
    ER.callees(P.reg)


def build(P):
    P.category = "other"
    setup(P)
    P.verify(E.SE + "StateEngine.start_execution", R.start_execution_contract(), tags=("C02",))
    P.verify(E.SE + "StateEngine.end_execution", R.end_execution_contract(), tags=("C02",))
    from contracts import handlers as _H
    _c = _H.handle_terminal_state_contract()
    P.verify(_c.key, _c, tags=("C02",), timeout=30)
    P.native("expired-backstop", "natives.c02:expired_backstop", kind="bounded", clause="C02:",
             bound="two scenarios: Parallel with two stuck task branches past TimeoutSeconds, and the same with one branch's start "
                   "event lost for good (its slot can never be filled, so the join state survives the first round); three heartbeat "
                   "back-stop rounds; the execution must end exactly once (real StateEngine.heartbeat / check_for_expired_branch_results / end_execution)")
    P.explanation = ("Per-call obligations on the real start_execution / end_execution (STANDARD): exactly one RUNNING "
                     "notification at start with the RUNNING record shape; at the end exactly one terminal notification, "
                     "of the stored record, after the terminal history event and the parent-task completion; stopDate set, "
                     "output iff SUCCEEDED, error/cause iff FAILED.")
    P.not_decided = ["exactly one terminal handling per execution over all schedules; no change after the end; termination "
                     "(needs a whole-system invariant, DESIGN.md section 5)",
                     "EXPRESS branch of end_execution (record synthesised with string functions) is not under this contract"]
