"""C03 Events are acked once, after their consequences are issued; nothing leaks (typestate over the ghost log)."""
from contracts import handlers as H


def build(P):
    P.category = "other"
    from props import C02
    from contracts import records as R0, engine as E0
    C02.setup(P)
    # a successful end releases the execution's join state (the failing end hands it to check_pending_results)
    P.verify(E0.SE + "StateEngine.end_execution", R0.end_execution_contract(), tags=("C03",))
    H.setup(P)
    H.add_handlers(P, ("C03",))
    from contracts import dispatcher as D, records as R
    D.externals(P.reg)
    D.launch_externals(P.reg)
    R.abstract_arn(P.reg)
    P.verify(D.ET + "asl_service_rpcmessage", D.rpcmessage_contract(), tags=("C03",), timeout=30)
    P.verify(D.ET + "asl_service_states_startExecution", D.start_execution_launch_contract(), tags=("C03",), timeout=30)
    from contracts import transport as T
    c = T.scoped(T.acknowledge_contract())
    P.verify(c.key, c, tags=("C03",))
    for w in ("asyncio", "blocking"):
        c = T.message_ack_contract(w)
        P.verify(c.key, c, tags=("C03",), timeout=30, label="Message.acknowledge.ack[%s]" % w, obl_prefix=w + ".Message.ack")
    P.native("quiescence-invariants", "natives.c01:corpus", kind="bounded", clause="C03:", timeout=900,
             bound="the C01 corpus (about 70 machines x 2 inputs x schedules) on the real engine + task dispatcher: at quiescence "
                   "nothing is unacknowledged, no join state / cancellers are left, no exception escaped")
    P.explanation = ("Typestate contract on every path of every state handler: acknowledge() has the call-site precondition "
                     "`issued` (a successor event was published / the terminal route taken / the event handed to a join or a "
                     "continuation), and at every exit the event is acked, held by a join or owned by a registered continuation; "
                     "cancellers are released on every completion path.")
    P.not_decided = ["nothing unacknowledged and no per-execution state at quiescence over all interleavings (needs a "
                     "whole-system invariant; DESIGN.md section 5)"]
