"""C16 Service quotas are enforced at the exact boundary."""
from contracts import dispatcher as D, records as R, engine as E


def build(P):
    P.category = "other"
    P.use_contracts("arn", "engine")
    P.verify(E.SE + "StateEngine.change_state", tags=("C16",))
    for mod in ("rest_api_asyncio", "rest_api"):
        P.verify("asl_workflow_engine/%s.py::valid_name" % mod, obl_prefix=mod + ".valid_name", tags=("C16",),
                 native={"cmd": "contract", "module": "asl_workflow_engine." + mod, "func": "valid_name"})
    D.externals(P.reg)
    R.abstract_arn(P.reg)
    P.verify(D.TD + "TaskDispatcher.handle_rpcmessage_response", D.handle_rpcmessage_response_contract(), tags=("C16",), timeout=30)
    from contracts import api as A
    for w in ("asyncio", "blocking"):
        c = A.start_execution_api(w)
        P.verify(c.key, c, tags=("C16",), timeout=30, label="StartExecution[%s]" % w, obl_prefix=w + ".StartExecution")
    c = A.start_execution_api("asyncio", sync=True)
    P.verify(c.key, c, tags=("C16",), timeout=30, obl_prefix="asyncio.StartSyncExecution")
    c = A.send_task_success_api()
    P.verify(c.key, c, tags=("C16",), timeout=30, obl_prefix="asyncio.SendTaskSuccess")
    P.lemma_module("lemmas/c16_limits.py")
    P.lemma("lemmas/c16_limits.py::limits_agree")
    P.native("history-limit", "natives.c16:history_limit", kind="bounded", clause="C16:",
             bound="a state entered as event #24999, #25000, #25001, #25002 of the execution history, through the real engine")
    P.explanation = ("Boundary obligations at the enforcement points: change_state (state output: exactly 262144 characters is "
                     "published, one more fails with States.DataLimitExceeded and publishes nothing), handle_rpcmessage_response "
                     "(a reply of exactly 262144 is parsed, one more is never parsed), valid_name (1..80 characters, no forbidden "
                     "character) in both front ends, StartExecution (both front ends) / StartSyncExecution / SendTaskSuccess (an input "
                     "or output of more than 262144 characters is refused before it is parsed and nothing is launched or delivered; "
                     "at the limit the parser is reached), and the limit constants read from the modules.")
    P.not_decided = ["definition size in CreateStateMachine / UpdateStateMachine is not under contract; the 25000-event "
                     "history limit in the body of notify is checked by a bounded stand-in only",
                     "the reply size is measured on the encoded bytes, the state output on characters (documented difference)"]
