"""C16 Service quotas are enforced at the exact boundary."""
from contracts import dispatcher as D, records as R, engine as E


def build(P):
    P.category = "other"
    P.use_contracts("arn", "engine")
    P.verify(E.SE + "StateEngine.change_state", tags=("C16",))
    for mod in ("rest_api_asyncio", "rest_api"):
        P.verify("asl_workflow_engine/%s.py::valid_name" % mod, obl_prefix=mod + ".valid_name", tags=("C16",),
                 native={"cmd": "contract", "module": "asl_workflow_engine." + mod, "func": "valid_name"})
    D.externals(P.reg)
    R.abstract_arn(P.reg)
    P.verify(D.TD + "TaskDispatcher.handle_rpcmessage_response", D.handle_rpcmessage_response_contract(), tags=("C16",), timeout=30)
    P.lemma_module("lemmas/c16_limits.py")
    P.lemma("lemmas/c16_limits.py::limits_agree")
    P.native("history-limit", "natives.c16:history_limit", kind="bounded", clause="C16:",
             bound="a state entered as event #24999, #25000, #25001, #25002 of the execution history, through the real engine")
    P.explanation = ("Boundary obligations at the enforcement points: change_state (state output: exactly 262144 characters is "
                     "published, one more fails with States.DataLimitExceeded and publishes nothing), handle_rpcmessage_response "
                     "(a reply of exactly 262144 is parsed, one more is never parsed), valid_name (1..80 characters, no forbidden "
                     "character) in both front ends, and the limit constants read from the modules.")
    P.not_decided = ["API-level limits (StartExecution input, SendTaskSuccess output, definition size) are not yet under contract; the 25000-event "
                     "history limit in the body of notify is checked by a bounded stand-in only",
                     "the reply size is measured on the encoded bytes, the state output on characters (documented difference)"]
