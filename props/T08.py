from contracts import joins as J, engine as E, handlers as H
def build(P):
    H.setup(P)
    P.verify(E.NOTIFY + "get_start_index", J.get_start_index_contract(), timeout=30)
