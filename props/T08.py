from contracts import joins as J, engine as E
def build(P):
    P.use_contracts("arn", "engine")
    P.verify(E.SE + "StateEngine.acknowledge_event_list", J.acknowledge_event_list_contract())
