"""C17 Names and ARNs round-trip and link executions to their state machine."""
from contracts.arn import FORBIDDEN

NAME_OK = ["strlen(name) >= 1", "strlen(name) <= 80", "not re_search(%r, name)" % FORBIDDEN]


def build(P):
    P.category = "proof"
    P.use_contracts("arn")
    P.lemma_module("lemmas/c17_arn.py")
    L = "lemmas/c17_arn.py::"
    P.verify("asl_workflow_engine/arn.py::create_arn",
             native={"cmd": "contract", "module": "asl_workflow_engine.arn", "func": "create_arn"})
    P.verify("asl_workflow_engine/arn.py::parse_arn",
             native={"cmd": "contract", "module": "asl_workflow_engine.arn", "func": "parse_arn"})
    for mod in ("rest_api_asyncio", "rest_api"):
        P.verify("asl_workflow_engine/%s.py::valid_name" % mod,
                 obl_prefix=mod + ".valid_name",
                 native={"cmd": "contract", "module": "asl_workflow_engine." + mod, "func": "valid_name"})
    P.lemma(L + "mint_parse_state_machine", types={"name": "str", "region": "str", "account": "str"},
            requires=NAME_OK + ["not (':' in region)", "not ('/' in region)", "re_full('[0-9]+', account)"],
            native={"cmd": "lemma", "path": "/verif/lemmas/c17_arn.py", "func": "mint_parse_state_machine"})
    P.native("identifier-links", "natives.c17:links", kind="bounded", clause="C17:",
             bound="STANDARD and EXPRESS executions (succeeding and failing) of 7 machines whose names are adversarial for string surgery "
                   "on ARNs ('execution', 'stateMachine', ...), plus the timeout back-stop for each: every status notification, the "
                   "stored record and the back-stop's synthesised end name the machine ARN / execution ARN / name the execution was started for")
    P.explanation = ("ARN mint/parse round trip and validator postconditions proved on the real functions "
                     "(bodies inlined from /repo on every run)")
