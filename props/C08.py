"""C08 Waits and timeouts fire at the right instant, never early."""
from contracts import handlers as H, time as T


def build(P):
    P.category = "other"
    H.setup(P)
    P.spec_module("specs/rfc3339.py")
    H.add_handlers(P, ("C08",))
    # the parser itself (the handlers see it through INSTANT(text))
    P.verify("asl_workflow_engine/state_engine.py::parse_rfc3339_datetime", T.parser_contract(),
             tags=("C08",), timeout=30)
    T.add_lemmas(P)
    # the engine-internal States.ExecutionTimeout is reported to the outside as States.Timeout
    from contracts import records as R, engine as E, errors as ER
    R.abstract_arn(P.reg)
    ER.callees(P.reg)
    R.callees(P.reg)
    P.reg.externals.insert(0, P.reg.externals.pop())      # records' view of handle_sfn_response first
    P.verify(E.SE + "StateEngine.end_execution", R.end_execution_contract(), tags=("C08",))
    P.native("rfc3339-all-offsets", "natives.c08:all_offsets", kind="bounded", clause="true-instant",
             bound="every numeric offset -23:59..+23:59 (2 x 24 x 60, exhaustive) x 3 date-time fields (6 at thorough), plus Z")
    from contracts import transport as TR
    for w in ("asyncio", "blocking"):
        for c in TR.timer_contracts(w):
            P.verify(c.key, c, tags=("C08",), timeout=30, obl_prefix=w + "." + c.key.split(".")[-1])
    P.explanation = ("Deadline arithmetic of Wait and Task proved per handler (never early w.r.t. the last clock read, never "
                     "later than the deadline measured from the clock at entry, computed from EnteredTime/StartTime so "
                     "redelivery does not extend it); timeout typing (execution deadline => States.ExecutionTimeout, task "
                     "deadline => States.Timeout) proved on on_response/on_timeout; the RFC 3339 parser: Z form and the "
                     "grammar-shape lemmas deductive, numeric-offset arithmetic by exhaustive enumeration of all offsets "
                     "(bounded stand-in: the string solvers leave that obligation undecided).")
    P.not_decided = ["'a cancelled or superseded timer never fires' is the broker/event-loop assumption A3",
                     "numeric-offset obligations of parse_rfc3339_datetime: undecided by z3/cvc5 (strings), bounded stand-in instead"]
