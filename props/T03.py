from contracts import engine as E, handlers as H
def build(P):
    P.use_contracts("arn", "engine")
    E.register_paths_abstract(P.reg)
    E.register_notify_callees(P.reg)
    H.externals(P.reg)
    P.spec_module("specs/asl.py")
    P.verify(E.NOTIFY + "asl_state_Pass", H.pass_contract())
