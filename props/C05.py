"""C05 Parallel and Map joins are order-independent, complete and concurrency-bounded."""


def build(P):
    P.category = "other"
    P.native("join-schedules", "natives.c05:joins", kind="bounded", clause="C05:", timeout=900,
             bound="Parallel with 2 and 3 task branches; Map over 0..3 items with MaxConcurrency in {absent, 0, 1, 2, n, n+1}; "
                   "every schedule of event deliveries and task replies up to 5 choice points (7 at thorough) then FIFO, plus "
                   "seeded random schedules; real StateEngine + real TaskDispatcher, fake broker")
    P.explanation = "joins"
