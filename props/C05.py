"""C05 Parallel and Map joins are order-independent, complete and concurrency-bounded."""
from contracts import handlers as H, engine as E, joins as J


def build(P):
    P.category = "other"
    H.setup(P)
    P.verify(E.SE + "StateEngine.acknowledge_event_list", J.acknowledge_event_list_contract(), tags=("C05",), timeout=30)
    P.verify(E.NOTIFY + "get_start_index", J.get_start_index_contract(), tags=("C05",), timeout=30)
    P.native("join-schedules", "natives.c05:joins", kind="bounded", clause="C05:", timeout=900,
             bound="Parallel with 2 and 3 task branches; Map over 0..4 items with MaxConcurrency in {absent, 0, 1, 2, n, n+1}; "
                   "every schedule of event deliveries and task replies up to 5 choice points (7 at thorough) then FIFO, every reply "
                   "order up to 5 choices, plus seeded random schedules; real StateEngine + real TaskDispatcher, fake broker")
    P.explanation = ("Deductive: acknowledge_event_list (loop invariant: every held id of a completed join is released, list length "
                     "kept), get_start_index without a Branch stack. The join itself (asl_state_collect_results, Map/Parallel "
                     "delegates) is NOT under a discharged contract; order independence, completeness, exactly-once processing and the "
                     "MaxConcurrency bound are checked by the bounded stand-in over enumerated schedules.")
    P.not_decided = ["collect_results / Map_delegate / Parallel_delegate obligations (slot update, join-iff, batch partition): not discharged"]
