
def build(P):
    P.use_contracts("arn", "engine")
    P.verify("asl_workflow_engine/state_engine.py::StateEngine.change_state")
