"""C11 All observability surfaces tell the same story about an execution."""
from contracts import records as R, engine as E
from props import C02


def build(P):
    P.category = "other"
    C02.setup(P)
    P.verify(E.SE + "StateEngine.broadcast_notification", R.broadcast_notification_contract(), tags=("C11",))
    P.verify(E.SE + "StateEngine.start_execution", R.start_execution_contract(), tags=("C11",))
    P.verify(E.SE + "StateEngine.end_execution", R.end_execution_contract(), tags=("C11",))
    P.native("backstop-publishes-once", "natives.c02:expired_backstop", kind="bounded", clause="C11:",
             bound="the two heartbeat back-stop scenarios of C02 (stuck fan-out; one branch event lost for good) over three rounds: FAILED "
                   "is published once and the terminal history event is appended once")
    P.explanation = ("broadcast_notification on its real body: exactly one broadcast, subject '<stateMachineArn>.<status>', "
                     "CloudWatch shape, start/stop dates in milliseconds in the message, the passed record restored field by "
                     "field (frame); start/end_execution: the record that is stored is the one notified, and the terminal history "
                     "event carries the same status/output/error.")
    P.not_decided = ["agreement 'at every moment' w.r.t. the REST thread (A4) and through a second instance (Redis, A2)"]
