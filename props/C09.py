"""C09 Execution history is a gap-free, ordered, faithful log."""
from contracts import records as R, engine as E
from props import C02


def build(P):
    P.category = "other"
    C02.setup(P)
    P.verify(E.SE + "StateEngine.update_execution_history", R.update_execution_history_contract(), tags=("C09",),
             order=("z3old", "z3new", "cvc5"), timeout=60, jobs=8)
    P.verify(E.SE + "StateEngine.start_execution", R.start_execution_contract(), tags=("C09",))
    P.verify(E.SE + "StateEngine.end_execution", R.end_execution_contract(), tags=("C09",))
    P.verify(E.SE + "StateEngine.change_state", tags=("C09",))
    from contracts import handlers as _H
    _c = _H.handle_terminal_state_contract()
    P.verify(_c.key, _c, tags=("C09",), timeout=30)
    from contracts import api as A
    for w in ("asyncio", "blocking"):
        c = A.get_execution_history_api(w)
        P.verify(c.key, c, tags=("C09",), timeout=30, label="GetExecutionHistory[%s]" % w, obl_prefix=w + ".GetExecutionHistory")
    P.explanation = ("update_execution_history on its real body: an event is appended at the end with id = length + 1 and "
                     "previousEventId = id - 1, earlier events untouched, timestamp a (monotone) clock read, details attached, "
                     "EXPRESS stores nothing; start_execution logs ExecutionStarted (history reset first); end_execution logs "
                     "exactly one terminal event that agrees with the record, before the notification; change_state logs "
                     "StateExited with the output before the transition; GetExecutionHistory (both front ends) never writes the "
                     "stored list and answers a copy of it, or with reverseOrder exactly its reverse.")
    P.not_decided = ["nothing appended after the terminal event; cross-event ordering (histories over schedules)",
                     "StateEntered suppression on retry / Map re-entry lives in the body of notify (not yet under contract)"]
