"""C09 Execution history is a gap-free, ordered, faithful log."""
from contracts import records as R, engine as E


def build(P):
    P.category = "other"
    P.use_contracts("arn", "engine")
    P.verify(E.SE + "StateEngine.update_execution_history", R.update_execution_history_contract(), tags=("C09",), order=("z3old", "z3new", "cvc5"), timeout=60, jobs=8)
    P.explanation = "history"
