"""C10 The state-machine and execution API behaves like a simple keyed store."""
from contracts import api as A


def build(P):
    P.category = "other"
    A.externals(P.reg)
    for which in ("asyncio", "blocking"):
        for f in (A.describe_state_machine, A.delete_state_machine, A.update_state_machine):
            c = f(which)
            name = c.key.split(".")[-1]
            P.verify(c.key, c, tags=("C10",), label="%s[%s]" % (name, which), obl_prefix="%s.%s" % (which, name), timeout=30)
    for which in ("asyncio", "blocking"):
        c = A.start_execution_api(which)
        P.verify(c.key, c, tags=("C10",), label="StartExecution[%s]" % which, obl_prefix="%s.aws_api_StartExecution" % which, timeout=30)
    P.native("api-sequences", "natives.c10:sequences", kind="bounded", clause="C10:", timeout=900,
             bound="both front ends (Quart / Flask test clients, real StateEngine + JSON file store): CreateStateMachine(m1) followed by "
                   "every one and a third (all at thorough) of the ordered pairs of 16 valid / invalid calls, then Describe and List; each "
                   "response and the store content compared with a reference model (map ARN -> record)")
    P.native("no-internal-errors", "natives.c10:no_internal_errors", kind="bounded", clause="C10:",
             bound="5 actions x 5 malformed bodies (not JSON, array, number, string, null) and 6 ill-typed parameter sets, both front ends: "
                   "never a 5xx answer, and a refused request leaves the store unchanged")
    P.explanation = "REST actions"
