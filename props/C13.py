"""C13 Payload templates and intrinsic functions evaluate as specified, fail cleanly."""
from contracts import intrinsics as I


def build(P):
    P.category = "other"
    for name, c in I.all_intrinsics().items():
        P.verify(c.key, c, tags=("C13",), label=name)
    P.native("template-walk", "natives.c13:template_walk", kind="bounded", clause="C13:",
             bound="templates built from 8 member kinds (literal, '.$' path, context path, intrinsic, '$') alone, in pairs, nested in "
                   "objects and (nested) arrays to depth 1 (2 at thorough); checks value, renaming, verbatim copy, no mutation of "
                   "template/input/context, no sharing with the template")
    P.native("intrinsic-calls", "natives.c13:intrinsics", kind="bounded", clause="C13:",
             bound="19 well-formed calls with their defined results and 29 ill-formed calls (wrong arity / type / range, unknown "
                   "function) that must fail with States.IntrinsicFailure or a path failure")
    P.explanation = "templates and intrinsics"
