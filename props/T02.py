from contracts import engine as E
from pyvc.api import Contract

def build(P):
    P.use_contracts("arn", "engine")
    E.register_paths_abstract(P.reg)
    E.register_notify_callees(P.reg)
    P.spec_module("specs/asl.py")
    c = Contract(E.NOTIFY + "asl_state_Pass", env=E.NOTIFY_ENV,
                 requires=E.NOTIFY_ENV_PRE, ghost_init=E.HANDLER_GHOST_INIT, protected=E.ENGINE_OBJECTS, distinct=E.ENGINE_OBJECTS,
                 ensures=E.HANDLER_TYPESTATE + [
                     ("pipeline-next", "implies(n_herr == old(n_herr) and n_term == old(n_term) and n_pub == old(n_pub) + 1, same(at_snapshot('pub_heap', event['data']), old(pass_output(state, data, context))))"),
                     ("pipeline-end", "implies(n_herr == old(n_herr) and n_term == old(n_term) + 1, same(at_snapshot('term_heap', event['data']), old(pass_output(state, data, context))))"),
                 ],
                 modifies="ALL", raises={})
    P.verify(E.NOTIFY + "asl_state_Pass", c)
