"""C04 In-progress executions survive an engine crash and restart (the per-call obligations the argument rests on)."""
from contracts import dispatcher as D, records as R, transport as T, handlers as H


def build(P):
    P.category = "other"
    D.externals(P.reg)
    D.launch_externals(P.reg)
    R.abstract_arn(P.reg)
    P.verify(D.ET + "asl_service_rpcmessage", D.rpcmessage_contract(), tags=("C04",), timeout=30)
    P.verify(D.ET + "asl_service_states_startExecution", D.start_execution_launch_contract(), tags=("C04",), timeout=30)
    T.externals(P.reg)
    P.verify(T.ED + "EventDispatcher.dispatch", T.dispatch_contract(), tags=("C04",))
    P.verify(T.ED + "EventDispatcher.publish", T.publish_contract(), tags=("C04",))
    # acknowledging one event acknowledges that delivery only: another execution's in-progress event stays unacknowledged
    # and is redelivered after a crash
    P.verify(T.ED + "EventDispatcher.acknowledge", T.acknowledge_contract(), tags=("C04",))
    for c in (D.schedule_orphaned_response_handler_contract(), D.handle_orphaned_responses_contract()):
        P.verify(c.key, c, tags=("C04",), timeout=30)
    P.explanation = ("What contracts carry of the crash argument: a redelivered task event does not send its request again but "
                     "re-registers the timeout (and pending request) under the same correlation id = the event's message id, which "
                     "the dispatcher hands to notify together with the redelivered flag; a redelivered child launch is not published "
                     "again; every published event gets a fresh message id; a reply parked in orphaned_responses keeps a sweep scheduled (one at a time, "
                     "re-armed on return for as long as something is parked) that hands it to the reply path once its task is pending again. With C03 (publish before acknowledge) and the broker "
                     "assumption A3 this is the no-loss / no-resend argument; the crash-point quantifier itself is not decided.")
    P.not_decided = ["outcome preservation across a crash, termination after restart, repeated crashes (crash-point quantifier)",
                     "lazy re-creation of join state is not under contract; that the parked reply is matched once the task is pending "
                     "rests on the loop body of handle_orphaned_responses, of which only the frame is used"]
