"""C19 Work is routed to the right queue/instance; messages map faithfully to AMQP."""
from contracts import transport as T


def build(P):
    P.category = "other"
    from contracts import dispatcher as D, records as R
    D.externals(P.reg)
    D.launch_externals(P.reg)          # first: its view of Message(...) (constructor arguments stored) must win
    R.abstract_arn(P.reg)
    T.externals(P.reg)
    for which in ("asyncio", "blocking"):
        c = T.send_publish_contract(which)
        P.verify(c.key, c, tags=("C19",), label="Producer.send.publish[%s]" % which, obl_prefix="%s.Producer.send.publish" % which)
    P.verify(T.ED + "EventDispatcher.publish", T.publish_contract(), tags=("C19",))
    P.verify(T.ED + "EventDispatcher.acknowledge", T.acknowledge_contract(), tags=("C19",))
    P.verify(T.ED + "EventDispatcher.dispatch", T.dispatch_contract(), tags=("C19",))
    P.verify(D.ET + "asl_service_rpcmessage", D.rpcmessage_contract(), tags=("C19",), timeout=30)
    P.verify(D.ET + "asl_service_states_startExecution", D.start_execution_launch_contract(), tags=("C19",), timeout=30)
    for w in ("asyncio", "blocking"):
        c = T.message_ack_contract(w)
        P.verify(c.key, c, tags=("C19",), timeout=30, label="Message.acknowledge.ack[%s]" % w, obl_prefix=w + ".Message.ack")
    from contracts import api as A
    for w in ("asyncio", "blocking"):
        c = A.start_execution_api(w)
        P.verify(c.key, c, tags=("C19",), timeout=30, label="StartExecution[%s]" % w, obl_prefix=w + ".StartExecution")
    c = A.start_execution_api("asyncio", sync=True)
    P.verify(c.key, c, tags=("C19",), timeout=30, obl_prefix="asyncio.StartSyncExecution")
    P.native("address-strings", "natives.c19:addresses", kind="bounded", clause="C19:",
             bound="Destination.parse_address of both transports on about 430 address strings (the engine's own shared / instance / reply "
                   "queue addresses, classic and quorum; the documented examples; a product of 20 node x 5 link option shapes x 3 heads): "
                   "declare / bindings / link settings / name / subject compared with a reference reading of the address grammar, and "
                   "between the transports")
    P.explanation = ("Producer.send in both transports: routing key = subject, body / exchange / mandatory / headers / correlation "
                     "id / reply-to / message id passed through, expiration None or the decimal string of a non-negative integer; "
                     "EventDispatcher.publish: shared queue iff asked, instance queue otherwise, fresh message id; acknowledge: that "
                     "delivery and no other, at most once (Message.acknowledge's ack in both transports: this message's delivery tag "
                     "with multiple unset; a returned message, tag 0, acknowledges nothing); dispatch: poison is acknowledged with multiple=False; task requests carry "
                     "this instance's reply queue, the event id as correlation id and the timeout as expiration; only asynchronous "
                     "child launches use the shared queue.")
    P.not_decided = ["queue / exchange declarations from the address strings: Destination.parse_address is checked by the bounded stand-in only "
                     "(its dict.update / json.loads obligations time out in all solvers), Consumer.open / Producer.open not under contract",
                     "affinity under competing consumers, exclusivity, frames on the wire (broker, A3)"]
