"""C19 Work is routed to the right queue/instance; messages map faithfully to AMQP."""
from contracts import transport as T


def build(P):
    P.category = "other"
    from contracts import dispatcher as D, records as R
    D.externals(P.reg)
    D.launch_externals(P.reg)          # first: its view of Message(...) (constructor arguments stored) must win
    R.abstract_arn(P.reg)
    T.externals(P.reg)
    for which in ("asyncio", "blocking"):
        c = T.send_publish_contract(which)
        P.verify(c.key, c, tags=("C19",), label="Producer.send.publish[%s]" % which, obl_prefix="%s.Producer.send.publish" % which)
    P.verify(T.ED + "EventDispatcher.publish", T.publish_contract(), tags=("C19",))
    P.verify(T.ED + "EventDispatcher.acknowledge", T.acknowledge_contract(), tags=("C19",))
    P.verify(T.ED + "EventDispatcher.dispatch", T.dispatch_contract(), tags=("C19",))
    P.verify(D.ET + "asl_service_rpcmessage", D.rpcmessage_contract(), tags=("C19",), timeout=30)
    P.verify(D.ET + "asl_service_states_startExecution", D.start_execution_launch_contract(), tags=("C19",), timeout=30)
    from contracts import api as A
    for w in ("asyncio", "blocking"):
        c = A.start_execution_api(w)
        P.verify(c.key, c, tags=("C19",), timeout=30, label="StartExecution[%s]" % w, obl_prefix=w + ".StartExecution")
    c = A.start_execution_api("asyncio", sync=True)
    P.verify(c.key, c, tags=("C19",), timeout=30, obl_prefix="asyncio.StartSyncExecution")
    P.explanation = ("Producer.send in both transports: routing key = subject, body / exchange / mandatory / headers / correlation "
                     "id / reply-to / message id passed through, expiration None or the decimal string of a non-negative integer; "
                     "EventDispatcher.publish: shared queue iff asked, instance queue otherwise, fresh message id; acknowledge: that "
                     "delivery and no other, at most once; dispatch: poison is acknowledged with multiple=False; task requests carry "
                     "this instance's reply queue, the event id as correlation id and the timeout as expiration; only asynchronous "
                     "child launches use the shared queue.")
    P.not_decided = ["queue / exchange declarations from the address strings (Destination.parse_address, Consumer.open) not under contract",
                     "affinity under competing consumers, exclusivity, frames on the wire (broker, A3)"]
