"""C14 Choice rules compare by type and combine like Boolean logic."""
from contracts import choice as CH, handlers as H


def build(P):
    P.category = "other"
    H.setup(P)
    P.spec_module("specs/choice.py")
    for name, c in CH.all_ops().items():
        P.verify(c.key, c, tags=("C14",), label=name)
    P.native("choice-operators", "natives.c14:operators", kind="bounded", clause="C14:",
             bound="24 comparison operators and their *Path variants x 16 variable values (incl. missing) x 15 constants; 6 type tests; "
                   "StringMatches patterns of length <= 3 over {a,b,*,?,[,\\} x 10 subjects; And/Or/Not combinations of 3 atoms to depth 3; "
                   "ordered pairs of rules -- through the real notify/asl_state_Choice")
    P.explanation = "choice operators"
