"""
pyvc.exec -- symbolic executor over the real AST (DESIGN.md 2.1-2.8).

One guarded state per exit kind, merged at joins.  Implicit exceptions become
exceptional paths (and hence `safe`/`xpost` obligations at the unit boundary).
Calls use the callee's contract when it has one, otherwise the callee's real
body is inlined.
"""
import ast
import re
import z3

from .vals import *            # noqa
from .state import *           # noqa
from . import builtins as BI


class Obligation(object):
    def __init__(self, oid, kind, goal, pc, nassume, span=None, expect="unsat", note=None):
        self.id = oid
        self.kind = kind
        self.goal = goal          # Bool term that must hold under pc (expect unsat of pc & !goal); for cover: pc & goal must be sat
        self.pc = pc
        self.nassume = nassume    # number of global assumptions in force
        self.span = span
        self.expect = expect
        self.note = note
        self.result = None


class Ctx(object):
    def __init__(self, fid, unit, raises, returns, breaks=None, continues=None, spec=False, cur_exc=None,
                 pre=None, depth=0):
        self.fid, self.unit = fid, unit
        self.raises, self.returns, self.breaks, self.continues = raises, returns, breaks, continues
        self.spec = spec
        self.cur_exc = cur_exc
        self.pre = pre            # pre-state for old() in spec mode
        self.depth = depth

    def derive(self, **kw):
        c = Ctx(self.fid, self.unit, self.raises, self.returns, self.breaks, self.continues, self.spec,
                self.cur_exc, self.pre, self.depth)
        for k, v in kw.items():
            setattr(c, k, v)
        return c


def local_names(fn_node):
    """Names that are local to a function (assigned somewhere in its body, or parameters)."""
    names = set()
    a = fn_node.args
    for x in a.posonlyargs + a.args + a.kwonlyargs:
        names.add(x.arg)
    if a.vararg:
        names.add(a.vararg.arg)
    if a.kwarg:
        names.add(a.kwarg.arg)
    nonlocal_ = set()

    def targets(t):
        if isinstance(t, ast.Name):
            names.add(t.id)
        elif isinstance(t, (ast.Tuple, ast.List)):
            for e in t.elts:
                targets(e)
        elif isinstance(t, ast.Starred):
            targets(t.value)

    def walk(node):
        for ch in ast.iter_child_nodes(node):
            if isinstance(ch, (ast.FunctionDef, ast.AsyncFunctionDef)):
                names.add(ch.name)
                continue
            if isinstance(ch, (ast.Lambda, ast.ListComp, ast.DictComp, ast.SetComp, ast.GeneratorExp)):
                continue
            if isinstance(ch, ast.ClassDef):
                names.add(ch.name)
                continue
            if isinstance(ch, ast.Assign):
                for t in ch.targets:
                    targets(t)
            elif isinstance(ch, (ast.AugAssign, ast.AnnAssign)):
                targets(ch.target)
            elif isinstance(ch, (ast.For, ast.AsyncFor)):
                targets(ch.target)
            elif isinstance(ch, (ast.With, ast.AsyncWith)):
                for it in ch.items:
                    if it.optional_vars is not None:
                        targets(it.optional_vars)
            elif isinstance(ch, ast.ExceptHandler):
                if ch.name:
                    names.add(ch.name)
            elif isinstance(ch, (ast.Import, ast.ImportFrom)):
                for al in ch.names:
                    names.add((al.asname or al.name).split(".")[0])
            elif isinstance(ch, (ast.Nonlocal, ast.Global)):
                nonlocal_.update(ch.names)
            elif isinstance(ch, ast.NamedExpr):
                targets(ch.target)
            walk(ch)

    body = fn_node.body if isinstance(fn_node.body, list) else [fn_node.body]
    for st in body:
        walk(ast.Module(body=[st], type_ignores=[]))
    return names - nonlocal_


def dotted_name(e):
    """'self.event_dispatcher.publish' for an Attribute/Name chain, else None."""
    parts = []
    while isinstance(e, ast.Attribute):
        parts.append(e.attr)
        e = e.value
    if isinstance(e, ast.Name):
        parts.append(e.id)
        return ".".join(reversed(parts))
    if isinstance(e, ast.Subscript):
        base = dotted_name(e.value)
        if base:
            parts.append(base + "[]")
            return ".".join(reversed(parts))
    return None


class Exec(object):
    def __init__(self, repo, registry, prop="C00"):
        self.repo = repo
        self.reg = registry
        self.prop = prop
        self.objs = []
        self.obj_index = {}
        self.assumptions = []
        self.obligations = []
        self.next_ref = [1]
        self.allocated = []
        self.frame_parent = {}
        self.frame_unit = {}
        self.next_fid = [1]
        self._locals_cache = {}
        self.key_universe = set()
        self.notes = []            # out-of-subset / dropped-effect notes
        self.inlined = set()       # unit keys whose real bodies were inlined
        self.contracted_calls = set()
        self.ext_calls = set()
        self.trusted = set()
        self.call_depth = 0
        self.cur_unit_label = ""
        self.loop_counters = {}
        self.obl_prefix = ""
        self.replay_inputs = {}
        self.max_inline_depth = 12
        self.trace_log = []        # (what, line, condition, pc) for debugging counterexamples

    # ------------------------------------------------------------------ objects
    def obj(self, *desc):
        key = tuple(id(x) if not isinstance(x, (str, int, type(None))) else x for x in desc)
        if key not in self.obj_index:
            self.obj_index[key] = len(self.objs)
            self.objs.append(desc)
        return VFn(z3.IntVal(self.obj_index[key]))

    def obj_of(self, v):
        v = simp(v)
        if z3.is_app(v) and v.decl().eq(Val.VFn) and z3.is_int_value(v.arg(0)):
            return self.objs[v.arg(0).as_long()]
        return None

    def new_ref(self, kind, cls_id=None):
        r = self.next_ref[0]
        self.next_ref[0] += 1
        CUR_NEXT_REF[0] = self.next_ref[0]
        self.allocated.append(r)
        self.assumptions.append(ty(z3.IntVal(r)) == kind)
        if cls_id is not None:
            self.assumptions.append(cls_of(z3.IntVal(r)) == cls_id)
        return z3.IntVal(r)

    def new_frame(self, unit, parent):
        fid = self.next_fid[0]
        self.next_fid[0] += 1
        self.frame_parent[fid] = parent
        self.frame_unit[fid] = unit
        return fid

    def locals_of(self, unit):
        if unit is None:
            return set()
        k = id(unit.node)
        if k not in self._locals_cache:
            self._locals_cache[k] = local_names(unit.node)
        return self._locals_cache[k]

    # ---- naming of large terms (keeps the term DAG linear; definitions live in the assumptions)
    name_limit = 60

    def is_small(self, t, limit=None):
        limit = limit or self.name_limit
        seen = set()
        stack = [t]
        while stack:
            x = stack.pop()
            i = x.get_id()
            if i in seen:
                continue
            seen.add(i)
            if len(seen) > limit:
                return False
            if z3.is_app(x):
                stack.extend(x.children())
        return True

    def name_bool(self, c):
        c = simp(c)
        if z3.is_true(c) or z3.is_false(c) or self.is_small(c):
            return c
        if z3.is_not(c):
            return z3.Not(self.name_bool(c.arg(0)))
        defs = self.__dict__.setdefault("defs", {})
        rev = self.__dict__.setdefault("_defs_rev", {})
        if c.get_id() in rev:
            return rev[c.get_id()]
        b = fresh("b", B)
        self.assumptions.append(b == c)
        defs[b.get_id()] = c
        rev[c.get_id()] = b
        self.__dict__.setdefault("_keepalive", []).append((b, c))
        return b

    def name_val(self, v):
        """Give a large value a name.  The outermost constructor stays visible (so type dispatch stays static)."""
        if v.sort() != Val:
            return v
        v = simp(v)
        if self.is_small(v):
            return v
        from . import strnorm
        defs = self.__dict__.setdefault("defs", strnorm.DEFS)
        rev = self.__dict__.setdefault("_defs_rev", {})
        if v.get_id() in rev:
            return rev[v.get_id()]
        if z3.is_app(v) and v.num_args() == 1 and v.decl().kind() == z3.Z3_OP_DT_CONSTRUCTOR:
            payload = v.arg(0)
            n = fresh("n", payload.sort())
            self.assumptions.append(n == payload)
            defs[n.get_id()] = payload
            out = v.decl()(n)
        else:
            out = fresh("v", Val)
            self.assumptions.append(out == v)
            defs[out.get_id()] = v
        rev[v.get_id()] = out
        self.__dict__.setdefault("_keepalive", []).append((out, v))
        return out

    def close_refs(self, v):
        """Heap closedness, instantiated lazily (DESIGN Appendix B): a reference read out of a base heap array
        (the initial heap, or content havocked by a callee contract) denotes an object that existed when that
        array came into being, hence is below the allocation frontier of that moment; objects allocated later
        can not alias it."""
        seen = self.__dict__.setdefault("_close_seen", set())
        v = simp(v)
        stack = [v]
        while stack:
            x = stack.pop()
            i = x.get_id()
            if i in seen:
                continue
            seen.add(i)
            if not z3.is_app(x):
                continue
            k = x.decl().kind()
            bound = None
            if k == z3.Z3_OP_SELECT and x.sort() == Val:
                a = x.arg(0)
                if z3.is_const(a) and a.decl().kind() == z3.Z3_OP_UNINTERPRETED:
                    bound = ARRAY_BOUND.get(a.decl().name())
                elif z3.is_app(a) and a.decl().kind() == z3.Z3_OP_SELECT and z3.is_const(a.arg(0)) \
                        and a.arg(0).decl().kind() == z3.Z3_OP_UNINTERPRETED:
                    bound = ARRAY_BOUND.get(a.arg(0).decl().name())
            elif (k == z3.Z3_OP_SEQ_NTH or x.decl().name() in ("seq.nth_i", "seq.nth_u")) and x.sort() == Val:
                # (the simplifier rewrites seq.nth into If(in bounds, seq.nth_i, seq.nth_u))
                a = x.arg(0)
                if z3.is_const(a) and a.decl().kind() == z3.Z3_OP_UNINTERPRETED:
                    bound = ARRAY_BOUND.get(a.decl().name())
                elif z3.is_app(a) and a.decl().kind() == z3.Z3_OP_SELECT and z3.is_const(a.arg(0)) \
                        and a.arg(0).decl().kind() == z3.Z3_OP_UNINTERPRETED:
                    bound = ARRAY_BOUND.get(a.arg(0).decl().name())
            if bound is not None:
                self.assumptions.append(z3.And(z3.Implies(is_Ref(x), rval(x) < bound), z3.Not(is_Unbound(x))))
                self.__dict__.setdefault("_keepalive", []).append(x)
            # only value positions: the branches of If nodes (what sits in conditions / indices was closed
            # when it was read)
            if k == z3.Z3_OP_ITE:
                stack.append(x.arg(1))
                stack.append(x.arg(2))
        return v

    # ------------------------------------------------------------------ assumptions / obligations
    def assume(self, st, fact):
        self.assumptions.append(simp(z3.Implies(st.pc, fact)))
        self.__dict__.setdefault("assumption_src", {})[len(self.assumptions) - 1] = getattr(self, "_cur_src", None)

    def oblige(self, st, kind, label, goal, span=None, expect="unsat", note=None):
        oid = "%s/%s/%s/%s" % (self.prop, self.obl_prefix, kind, label)
        n = 2
        base = oid
        existing = set(o.id for o in self.obligations)
        while oid in existing:
            oid = "%s#%d" % (base, n)
            n += 1
        o = Obligation(oid, kind, goal, st.pc, len(self.assumptions), span, expect, note)
        self.obligations.append(o)
        return o

    def entails(self, st, fact, timeout_s=10):
        """Does the current path condition (with the assumptions) prove `fact`?  Decided by the solver CLIs;
        'unknown' counts as no.  Used only to pick a *stronger* (static) encoding, never to drop a path."""
        from . import solve
        f = simp(fact)
        if z3.is_true(f):
            return True
        if z3.is_false(f):
            return False
        key = (simp(st.pc).get_id(), f.get_id(), len(self.assumptions))
        cache = self.__dict__.setdefault("_entails_cache", {})
        if key in cache:
            return cache[key]
        o = Obligation("entails", "prune", f, st.pc, len(self.assumptions))
        txt, _ = solve.build_query(self, o, self.__dict__.setdefault("_coi_cache", {}))
        r = solve.decide(txt, self.workdir, "entails%d" % len(cache), timeout_s=timeout_s, order=("z3new", "cvc5"))
        self.__dict__.setdefault("_keepalive", []).append((st.pc, f))
        cache[key] = (r.status == "unsat")
        self.prune_queries = getattr(self, "prune_queries", 0) + 1
        return cache[key]

    workdir = "/tmp/pyvc_q"
    quick_timeout_ms = 100

    def quick(self, st, fact, sticky_fail=False):
        """In-process, time-boxed entailment test used to prune type-dispatch noise.  Facts that mention
        string operations are not attempted (z3's in-process string solver is not trusted to return).
        A fact proved under some path condition holds under every extension of it (monotone cache); with
        sticky_fail a fact that failed once is not tried again (aliasing / type facts rarely depend on the path)."""
        from . import solve
        f = simp(fact)
        if z3.is_true(f):
            return True
        if z3.is_false(f):
            return False
        if not getattr(self, "use_quick", True):
            return False
        cache = self.__dict__.setdefault("_quick_cache", {})
        ids = tuple(c.get_id() for c in st.conj)
        key = (ids, f.get_id())
        if key in cache:
            return cache[key]
        mono = self.__dict__.setdefault("_quick_mono", {})
        ent = mono.get(f.get_id())
        if ent is not None:
            cur = set(ids)
            for pset in ent[0]:
                if pset <= cur:
                    cache[key] = True
                    return True
            if sticky_fail and ent[1][0]:
                cache[key] = False
                return False
        coi = self.__dict__.setdefault("_coi_cache", {})
        sc = self.__dict__.setdefault("_strop_cache", {})
        if _has_string_ops(f, sc):
            cache[key] = False
            return False
        # a fact that keeps failing is not retried on every path (sound: "no" only costs a larger encoding)
        fails = self.__dict__.setdefault("_quick_fails", {})
        nf, ns = fails.get(f.get_id(), (0, 0))
        if nf >= (2 if ns == 0 else 6):
            cache[key] = False
            return False
        # hypotheses that use string operations are dropped (sound: fewer hypotheses)
        hyps = [c for c in st.conj if not _has_string_ops(c, sc)]
        roots = hyps + [f]
        s = self.__dict__.get("_qsolver")
        if s is None:
            s = self._qsolver = z3.Solver()
            self._qsolver_n = 0
        s.set("timeout", self.quick_timeout_ms)
        # all (string-free, quantifier-free) assumptions are asserted once, incrementally: they are globally valid
        # facts (definitions of fresh names, callee postconditions guarded by their path conditions)
        while self._qsolver_n < len(self.assumptions):
            a_ = self.assumptions[self._qsolver_n]
            self._qsolver_n += 1
            if not _has_string_ops(a_, sc) and not z3.is_quantifier(a_):
                s.add(a_)
        s.push()
        for c in hyps:
            s.add(c)
        s.add(z3.Not(f))
        r = s.check() == z3.unsat
        s.pop()
        self.__dict__.setdefault("_keepalive", []).append((roots, f))
        cache[key] = r
        fails[f.get_id()] = (nf, ns + 1) if r else (nf + 1, ns)
        ent = mono.setdefault(f.get_id(), ([], [0]))
        if r:
            ent[0].append(frozenset(ids))
        else:
            ent[1][0] = 1
        self.quick_queries = getattr(self, "quick_queries", 0) + 1
        return r

    def raise_if(self, st, ctx, cond, cls, msg=None, node=None):
        """Fork an exceptional path under `cond`; continue on the complement."""
        if ctx.spec:
            return
        cond = self.name_bool(cond)
        if z3.is_false(cond):
            return
        rs = st.fork()
        rs.guard(cond)
        if rs.dead:
            return
        if self.quick(st, z3.Not(cond)):
            return
        ctx.raises.append((rs, Exc(cls, self.new_exc(rs, cls, msg if msg is not None else VStr(sv(cls))))))
        self.trace_log.append(("raise " + cls, getattr(node, "lineno", None), cond, st.pc))
        st.guard(z3.Not(cond))

    def new_exc(self, st, cls, msg):
        r = self.new_ref(T_EXC)
        st.heap = st.heap.dnew(r).dset(r, sv("args0"), msg)
        return VRef(r)

    def unsupported(self, st, ctx, what, node=None):
        """An unmodelled construct: fine if unreachable, otherwise the unit is out of subset."""
        if st.dead:
            return
        line = getattr(node, "lineno", None)
        self.oblige(st, "subset", "%s@%s" % (what.replace("/", "_").replace(" ", "_"), line), z3.BoolVal(False),
                    span=line, note="unsupported construct must be unreachable: " + what)
        st.kill()

    # ------------------------------------------------------------------ names
    def lookup(self, name, st, ctx, node=None):
        fid = ctx.fid
        while fid is not None:
            unit = self.frame_unit.get(fid)
            fr = st.frames.setdefault(fid, {})
            if name in fr:
                v = fr[name]
                if not ctx.spec and _mentions_unbound(v, self.__dict__.setdefault("_unb_cache", {})):
                    self.raise_if(st, ctx, is_Unbound(v), "UnboundLocalError", node=node)
                return v
            if unit is not None and name in self.locals_of(unit):
                if unit.nested.get(name) is not None and fid != ctx.fid or \
                        (unit.nested.get(name) is not None and self.frame_is_synthetic(fid)):
                    v = self.obj("closure", unit.nested[name], fid)
                    fr[name] = v
                    return v
                if self.frame_is_synthetic(fid):
                    v = self.env_value(name, fid)
                    for s in self.all_frames_holders(st):
                        s.frames.setdefault(fid, {})[name] = v
                    return v
                if ctx.spec:
                    return VUnbound
                self.raise_if(st, ctx, z3.BoolVal(True), "UnboundLocalError", node=node)
                return VUnbound
            fid = self.frame_parent.get(fid)
        return self.lookup_global(name, st, ctx, node)

    synthetic_frames = None

    def frame_is_synthetic(self, fid):
        return self.synthetic_frames is not None and fid in self.synthetic_frames

    def all_frames_holders(self, st):
        hs = [st]
        if getattr(self, "pre_state", None) is not None:
            hs.append(self.pre_state)
        return hs

    def env_value(self, name, fid):
        k = (fid, name)
        cache = self.__dict__.setdefault("_env_cache", {})
        if k not in cache:
            typ = self.synthetic_frames[fid].get(name, "any")
            cache[k] = self.typed_symbol("env_" + name, typ)
        return cache[k]

    def _missing_in_join(self, fid, name):
        """state.join2: value of a frame entry that one side never touched."""
        if self.frame_is_synthetic(fid):
            unit = self.frame_unit.get(fid)
            if unit is not None and name in self.locals_of(unit):
                if unit.nested.get(name) is not None:
                    return self.obj("closure", unit.nested[name], fid)
                return self.env_value(name, fid)
        return VUnbound

    def typed_symbol(self, name, typ):
        if typ == "str":
            return VStr(z3.Const(name, S))
        if typ == "int":
            return VInt(z3.Const(name, I))
        if typ == "bool":
            return VBool(z3.Const(name, B))
        if typ == "float":
            return VFloat(z3.Const(name, R))
        if typ in ("dict", "list", "obj", "tuple"):
            r = z3.Const(name + "_ref", I)
            kind = {"dict": T_DICT, "list": T_LIST, "obj": T_OBJ, "tuple": T_TUPLE}[typ]
            self.assumptions.append(z3.And(r <= 0, ty(r) == kind))
            return VRef(r)
        if typ == "none":
            return VNone
        v = z3.Const(name, Val)
        self.assumptions.append(z3.Implies(is_Ref(v), rval(v) <= 0))
        self.assumptions.append(z3.Not(is_Unbound(v)))
        if typ == "json":
            self.assumptions.append(z3.Not(z3.Or(is_Fn(v), is_Opq(v))))
            self.assumptions.append(z3.Implies(is_Ref(v), z3.Or(ty(rval(v)) == T_DICT, ty(rval(v)) == T_LIST)))
        elif typ == "strnone":
            self.assumptions.append(z3.Or(is_Str(v), is_None(v)))
        elif typ == "fn":
            self.assumptions.append(is_Opq(v))
        elif typ == "num":
            self.assumptions.append(z3.Or(is_Int(v), is_Float(v)))
        return v

    def type_pred(self, typ, v):
        if typ == "str":
            return is_Str(v)
        if typ == "int":
            return is_Int(v)
        if typ == "bool":
            return is_Bool(v)
        if typ == "float":
            return is_Float(v)
        if typ == "num":
            return z3.Or(is_Int(v), is_Float(v))
        if typ == "none":
            return is_None(v)
        if typ == "strnone":
            return z3.Or(is_Str(v), is_None(v))
        if typ in ("dict", "list", "obj", "tuple"):
            kind = {"dict": T_DICT, "list": T_LIST, "obj": T_OBJ, "tuple": T_TUPLE}[typ]
            return z3.And(is_Ref(v), ty(rval(v)) == kind)
        if typ == "json":
            return z3.And(z3.Not(is_Fn(v)), z3.Not(is_Opq(v)),
                          z3.Implies(is_Ref(v), z3.Or(ty(rval(v)) == T_DICT, ty(rval(v)) == T_LIST)))
        if typ == "fn":
            return z3.Or(is_Opq(v), is_Fn(v))
        return None

    def lookup_global(self, name, st, ctx, node=None):
        unit = ctx.unit
        mod = unit.module if unit is not None else None
        if name in BI.SPEC_FUNCS and ctx.spec:
            return self.obj("builtin", "spec." + name)
        if name in self.reg.spec_src and ctx.spec:
            return self.obj("specfn", name)
        if mod is not None:
            r = self.module_member(mod, name)
            if r is not None:
                return r
        if name in BI.BUILTIN_FUNCS:
            return self.obj("builtin", name)
        if name in BI.TYPE_NAMES or name in EXC_BASE:
            return self.obj("class", name)
        if ctx.spec:
            raise OutOfSubset("spec: unknown name %r" % name, node)
        self.raise_if(st, ctx, z3.BoolVal(True), "NameError", VStr(sv("name '%s' is not defined" % name)), node=node)
        return VUnbound

    def module_member(self, mod, name, seen=None):
        if name in mod.constants:
            return self.const_val(mod.constants[name])
        if name in mod.units:
            return self.obj("closure", mod.units[name], None)
        if name in mod.classes:
            return self.obj("class", name)
        if name in mod.imports:
            tgt = mod.imports[name]
            m2 = self.repo.module_by_dotted(tgt)
            if m2 is not None:
                return self.obj("module", tgt)
            if "." in tgt:
                base, member = tgt.rsplit(".", 1)
                m3 = self.repo.module_by_dotted(base)
                if m3 is not None:
                    r = self.module_member(m3, member)
                    if r is not None:
                        return r
                # external: from datetime import datetime
                return self.obj("builtin", tgt) if tgt in BI.BUILTIN_FUNCS else self.obj("module", tgt)
            return self.obj("module", tgt)
        seen = seen or set()
        for star in mod.imports.get("*", []):
            if star in seen:
                continue
            seen.add(star)
            m2 = self.repo.module_by_dotted(star)
            if m2 is not None:
                r = self.module_member(m2, name, seen)
                if r is not None:
                    return r
        return None

    def const_val(self, c):
        if c is None:
            return VNone
        if isinstance(c, bool):
            return VBool(z3.BoolVal(c))
        if isinstance(c, int):
            return VInt(z3.IntVal(c))
        if isinstance(c, float):
            return VFloat(z3.RealVal(repr(c)))
        if isinstance(c, str):
            return VStr(sv(c))
        raise OutOfSubset("constant %r" % (c,))

    def store_name(self, name, val, st, ctx):
        fid = ctx.fid
        # nonlocal handling: write to the frame whose unit declares it local
        st.frames.setdefault(fid, {})[name] = self.name_val(val) if not ctx.spec else val

    # ------------------------------------------------------------------ statements
    def exec_block(self, stmts, st, ctx):
        for s in stmts:
            if st is None or st.dead:
                return None
            st = self.exec_stmt(s, st, ctx)
        return st

    def exec_stmt(self, s, st, ctx):
        m = getattr(self, "s_" + type(s).__name__, None)
        if m is None:
            self.unsupported(st, ctx, "stmt " + type(s).__name__, s)
            return None
        return m(s, st, ctx)

    def s_Expr(self, s, st, ctx):
        if isinstance(s.value, ast.Constant):
            return st                       # docstring / comment string: dropped (DESIGN 2.2)
        self.eval(s.value, st, ctx)
        return st

    def s_Pass(self, s, st, ctx):
        return st

    def s_Assert(self, s, st, ctx):
        # only lemma units contain asserts we care about; repo asserts are `sys.version_info` checks
        if ctx.unit is not None and getattr(ctx.unit, "is_lemma", False):
            uses_spec = any(isinstance(n, ast.Call) and isinstance(n.func, ast.Name) and n.func.id in BI.SPEC_FUNCS
                            for n in ast.walk(s.test))
            actx = ctx.derive(spec=True, pre=st, raises=[], returns=[]) if uses_spec else ctx
            c = self.truth(self.eval(s.test, st, actx), st)
            label = "assert@%d" % s.lineno
            if s.msg is not None and isinstance(s.msg, ast.Constant):
                label = str(s.msg.value)
            self.oblige(st, "lemma", label, c, span=s.lineno)
            self.assume(st, c)              # chain proved facts (DESIGN 2.9)
            return st
        return st

    def s_Import(self, s, st, ctx):
        for al in s.names:
            self.store_name((al.asname or al.name).split(".")[0], self.obj("module", al.name), st, ctx)
        return st

    def s_ImportFrom(self, s, st, ctx):
        for al in s.names:
            self.store_name(al.asname or al.name, self.obj("module", (s.module or "") + "." + al.name), st, ctx)
        return st

    def s_Global(self, s, st, ctx):
        return st

    def s_Nonlocal(self, s, st, ctx):
        return st

    def s_FunctionDef(self, s, st, ctx):
        unit = ctx.unit.nested.get(s.name) if ctx.unit is not None else None
        if unit is None or unit.node is not s:
            # find by node identity
            unit = None
            if ctx.unit is not None:
                for u in ctx.unit.module.units.values():
                    if u.node is s:
                        unit = u
                        break
        if unit is None:
            raise OutOfSubset("nested def not indexed: " + s.name, s)
        self.store_name(s.name, self.obj("closure", unit, ctx.fid), st, ctx)
        return st

    s_AsyncFunctionDef = s_FunctionDef

    def s_Return(self, s, st, ctx):
        v = self.eval(s.value, st, ctx) if s.value is not None else VNone
        if not st.dead:
            ctx.returns.append((st, v))
        return None

    def s_Raise(self, s, st, ctx):
        if s.exc is None:
            if ctx.cur_exc is None:
                self.unsupported(st, ctx, "bare raise outside handler", s)
                return None
            ctx.raises.append((st, ctx.cur_exc))
            return None
        e = s.exc
        cls, msg = None, None
        if isinstance(e, ast.Call):
            f = self.eval(e.func, st, ctx)
            o = self.obj_of(f)
            if o is not None and o[0] == "class":
                cls = o[1]
                args = [self.eval(a, st, ctx) for a in e.args]
                msg = args[0] if args else VStr(sv(""))
        elif isinstance(e, ast.Name):
            v = self.eval(e, st, ctx)
            o = self.obj_of(v)
            if o is not None and o[0] == "class":
                cls, msg = o[1], VStr(sv(""))
            else:
                # re-raise of a bound exception variable
                if ctx.cur_exc is not None:
                    ctx.raises.append((st, ctx.cur_exc))
                    return None
        if cls is None:
            self.unsupported(st, ctx, "raise of non-class", s)
            return None
        if not st.dead:
            ctx.raises.append((st, Exc(cls, self.new_exc(st, cls, msg))))
        return None

    def s_Break(self, s, st, ctx):
        ctx.breaks.append(st)
        return None

    def s_Continue(self, s, st, ctx):
        ctx.continues.append(st)
        return None

    def s_Assign(self, s, st, ctx):
        v = self.eval(s.value, st, ctx)
        for t in s.targets:
            self.assign_target(t, v, st, ctx)
        return st

    def s_AnnAssign(self, s, st, ctx):
        if s.value is not None:
            self.assign_target(s.target, self.eval(s.value, st, ctx), st, ctx)
        return st

    def s_AugAssign(self, s, st, ctx):
        load = ast.copy_location(_as_load(s.target), s.target)
        cur = self.eval(load, st, ctx)
        rhs = self.eval(s.value, st, ctx)
        v = self.binop(s.op, cur, rhs, st, ctx, s)
        self.assign_target(s.target, v, st, ctx)
        return st

    def s_Delete(self, s, st, ctx):
        for t in s.targets:
            if isinstance(t, ast.Subscript):
                obj = self.eval(t.value, st, ctx)
                k = self.eval(t.slice, st, ctx)
                BI.del_item(self, st, ctx, obj, k, t)
            elif isinstance(t, ast.Name):
                st.frames.setdefault(ctx.fid, {})[t.id] = VUnbound
            else:
                self.unsupported(st, ctx, "del target", s)
        return st

    def assign_target(self, t, v, st, ctx):
        if st.dead:
            return
        if isinstance(t, ast.Name):
            self.store_name(t.id, v, st, ctx)
        elif isinstance(t, ast.Subscript):
            obj = self.eval(t.value, st, ctx)
            k = self.eval(t.slice, st, ctx)
            BI.set_item(self, st, ctx, obj, k, v, t)
        elif isinstance(t, ast.Attribute):
            obj = self.eval(t.value, st, ctx)
            self.key_universe.add(t.attr)

            def setattr_(x, o):
                self.raise_if(x, ctx, z3.Not(is_Ref(o)), "AttributeError", node=t)
                x.heap = x.heap.dset(rval(o), sv(t.attr), v)
                return VNone
            BI.ref_split(self, st, ctx, obj, setattr_)
        elif isinstance(t, (ast.Tuple, ast.List)):
            n = len(t.elts)
            self.raise_if(st, ctx, z3.Not(z3.And(is_Ref(v), z3.Or(ty(rval(v)) == T_TUPLE, ty(rval(v)) == T_LIST))),
                          "TypeError", node=t)
            seq = simp(BI.hlget(self, st, rval(v)))
            self.raise_if(st, ctx, BI.seq_len(seq) != n, "ValueError", node=t)
            for i, e in enumerate(t.elts):
                ev = BI.seq_nth(seq, i)
                self.assign_target(e, ev if ev is not None else seq[i], st, ctx)
        else:
            self.unsupported(st, ctx, "assign target " + type(t).__name__, t)

    def s_If(self, s, st, ctx):
        c = self.truth(self.eval(s.test, st, ctx), st)
        if st.dead:
            return None
        self.trace_log.append(("if", s.lineno, c, st.pc))
        return self.branch(st, c, lambda x: self.exec_block(s.body, x, ctx),
                           lambda x: self.exec_block(s.orelse, x, ctx))

    def branch(self, st, c, f_then, f_else):
        c = self.name_bool(c)
        if z3.is_true(c):
            return f_then(st)
        if z3.is_false(c):
            return f_else(st)
        s1 = st.fork()
        s1.guard(c)
        s2 = st
        s2.guard(z3.Not(c))
        r1 = f_then(s1) if not s1.dead else None
        r2 = f_else(s2) if not s2.dead else None
        return join2(c, r1, r2)

    def s_With(self, s, st, ctx):
        for it in s.items:
            v = self.eval(it.context_expr, st, ctx)
            if it.optional_vars is not None:
                self.assign_target(it.optional_vars, v, st, ctx)
        return self.exec_block(s.body, st, ctx)

    s_AsyncWith = s_With

    def s_Try(self, s, st, ctx):
        inner_raises = []
        body_ctx = ctx.derive(raises=inner_raises)
        pre_returns = len(ctx.returns)
        pre_breaks = len(ctx.breaks) if ctx.breaks is not None else 0
        pre_conts = len(ctx.continues) if ctx.continues is not None else 0
        end = self.exec_block(s.body, st, body_ctx)
        if end is not None and s.orelse:
            end = self.exec_block(s.orelse, end, body_ctx if not s.handlers else ctx.derive(raises=inner_raises))
        outs = [end]
        # route exceptional paths through the handlers
        escaped = []
        for rs, exc in inner_raises:
            remaining = rs
            for h in s.handlers:
                if remaining is None or remaining.dead:
                    break
                names = _handler_classes(h)
                if names is None:
                    m = True
                else:
                    ms = [exc_is_subclass(exc.cls, n) for n in names]
                    m = True if any(x is True for x in ms) else (None if any(x is None for x in ms) else False)
                if m is False:
                    continue
                if m is None:
                    # wildcard exception vs specific handler: nondeterministic
                    b = fresh("excmatch", B)
                    hs = remaining.fork()
                    hs.guard(b)
                    remaining.guard(z3.Not(b))
                else:
                    hs, remaining = remaining, None
                if h.name:
                    self.store_name(h.name, exc.val, hs, ctx)
                outs.append(self.exec_block(h.body, hs, ctx.derive(cur_exc=exc)))
            if remaining is not None and not remaining.dead:
                escaped.append((remaining, exc))
        if s.finalbody:
            # finally: run on the normal continuation, and on every escaping path
            normal = join(outs)
            res = self.exec_block(s.finalbody, normal, ctx) if normal is not None else None
            for rs, exc in escaped:
                r2 = self.exec_block(s.finalbody, rs, ctx)
                if r2 is not None:
                    ctx.raises.append((r2, exc))
            # returns/breaks/continues through finally
            for lst, pre in ((ctx.returns, pre_returns),):
                for i in range(pre, len(lst)):
                    rst, rv = lst[i]
                    r2 = self.exec_block(s.finalbody, rst, ctx.derive(returns=[]))
                    lst[i] = (r2 if r2 is not None else _dead(rst), rv)
            return res
        ctx.raises.extend(escaped)
        return join(outs)

    # loops -----------------------------------------------------------------
    def loop_contract(self, node, ctx):
        c = self.reg.by_key.get(ctx.unit.key) if ctx.unit is not None else None
        vu = getattr(self, "verified_unit", None)
        if vu is not None and ctx.unit is not None and ctx.unit.key == vu[0]:
            c = vu[1]                      # the contract the unit is being verified against (may be passed explicitly)
        if c is None:
            return None
        # ordinal = index of this loop among the loops of the unit in source order
        loops = [n for n in ast.walk(ctx.unit.node) if isinstance(n, (ast.For, ast.While, ast.AsyncFor))]
        loops.sort(key=lambda n: (n.lineno, n.col_offset))
        own = [n for n in loops if self.owner_unit_node(ctx.unit, n)]
        try:
            k = own.index(node)
        except ValueError:
            return None
        return c.loops.get(k)

    def owner_unit_node(self, unit, node):
        # a loop belongs to `unit` if it is not inside a nested def of it
        for u in unit.nested.values():
            if u.node.lineno <= node.lineno <= u.node.end_lineno:
                return False
        return True

    def s_For(self, s, st, ctx):
        it = self.eval(s.iter, st, ctx)
        if st.dead:
            return None
        seq = BI.iter_to_seq(self, st, ctx, it, s)
        if seq is None:
            return None
        return self.run_loop(s, st, ctx, seq=seq)

    s_AsyncFor = s_For

    def s_While(self, s, st, ctx):
        return self.run_loop(s, st, ctx, seq=None)

    def it_len(self, seq):
        if isinstance(seq, tuple):
            return z3.Length(seq[1])
        return z3.Length(seq)

    def it_assign(self, target, seq, idx, st, ctx):
        """Bind the loop target for iteration `idx` (enumerate / dict items are not materialised as tuples)."""
        if isinstance(seq, tuple) and seq[0] == "enumerate":
            base, start = seq[1], seq[2]
            if isinstance(target, (ast.Tuple, ast.List)) and len(target.elts) == 2:
                self.assign_target(target.elts[0], VInt(start + idx), st, ctx)
                self.assign_target(target.elts[1], self.close_refs(base[idx]), st, ctx)
            else:
                self.assign_target(target, BI.new_list(self, st, [VInt(start + idx), base[idx]], T_TUPLE), st, ctx)
            return
        if isinstance(seq, tuple) and seq[0] == "items":
            keys, d = seq[1], seq[2]
            k = VStr(keys[idx])
            v = self.close_refs(BI.hget(self, st, rval(d), keys[idx]))
            if isinstance(target, (ast.Tuple, ast.List)) and len(target.elts) == 2:
                self.assign_target(target.elts[0], k, st, ctx)
                self.assign_target(target.elts[1], v, st, ctx)
            else:
                self.assign_target(target, BI.new_list(self, st, [k, v], T_TUPLE), st, ctx)
            return
        self.assign_target(target, self.close_refs(seq[idx]) if not z3.is_int_value(simp(idx)) else simp(seq[idx]),
                           st, ctx)

    def run_loop(self, s, st, ctx, seq):
        """seq: z3 Seq(Val) term being iterated (for), or None (while)."""
        lc = self.loop_contract(s, ctx)
        is_for = seq is not None
        n_concrete = None
        if is_for:
            ln = simp(self.it_len(seq))
            if z3.is_int_value(ln):
                n_concrete = ln.as_long()
        if lc is None and is_for and n_concrete is not None and n_concrete <= 64:
            return self.unroll_for(s, st, ctx, seq, n_concrete)
        if lc is not None and lc.unroll is not None and is_for:
            # unroll k iterations; exhaustion obligation makes it complete
            self.oblige(st, "unwind", "loop", self.it_len(seq) <= lc.unroll, span=s.lineno)
            return self.unroll_for_sym(s, st, ctx, seq, lc.unroll)
        return self.invariant_loop(s, st, ctx, seq, lc)

    def unroll_for(self, s, st, ctx, seq, n):
        breaks = []
        for i in range(n):
            if st is None or st.dead:
                break
            conts = []
            lctx = ctx.derive(breaks=breaks, continues=conts)
            self.it_assign(s.target, seq, z3.IntVal(i), st, ctx)
            end = self.exec_block(s.body, st, lctx)
            st = join([end] + conts)
        if st is not None and s.orelse:
            st = self.exec_block(s.orelse, st, ctx)
        return join([st] + breaks)

    def unroll_for_sym(self, s, st, ctx, seq, k):
        breaks = []
        done = []
        for i in range(k):
            if st is None or st.dead:
                break
            fin = st.fork()
            fin.guard(self.it_len(seq) <= i)
            done.append(fin)
            st.guard(self.it_len(seq) > i)
            conts = []
            lctx = ctx.derive(breaks=breaks, continues=conts)
            self.it_assign(s.target, seq, z3.IntVal(i), st, ctx)
            end = self.exec_block(s.body, st, lctx)
            st = join([end] + conts)
        if st is not None:
            st.guard(self.it_len(seq) <= k)
            done.append(st)
        res = join(done)
        if res is not None and s.orelse:
            res = self.exec_block(s.orelse, res, ctx)
        return join([res] + breaks)

    def assigned_in(self, stmts):
        names = set()
        heapw = [False]

        def targets(t):
            if isinstance(t, ast.Name):
                names.add(t.id)
            elif isinstance(t, (ast.Tuple, ast.List)):
                for e in t.elts:
                    targets(e)
            elif isinstance(t, (ast.Subscript, ast.Attribute)):
                heapw[0] = True

        for st in stmts:
            for n in ast.walk(st):
                if isinstance(n, ast.Assign):
                    for t in n.targets:
                        targets(t)
                elif isinstance(n, (ast.AugAssign, ast.AnnAssign)):
                    targets(n.target)
                elif isinstance(n, ast.For):
                    targets(n.target)
                elif isinstance(n, ast.ExceptHandler) and n.name:
                    names.add(n.name)
                elif isinstance(n, ast.With):
                    for it in n.items:
                        if it.optional_vars is not None:
                            targets(it.optional_vars)
                elif isinstance(n, ast.Call):
                    heapw[0] = True
                elif isinstance(n, ast.Delete):
                    heapw[0] = True
        return names, heapw[0]

    def invariant_loop(self, s, st, ctx, seq, lc):
        is_for = seq is not None
        names, heapw = self.assigned_in(s.body)
        if is_for:
            tn, _ = self.assigned_in([ast.Assign(targets=[s.target], value=ast.Constant(value=None))])
            names |= tn
        if lc is not None and lc.modifies_vars is not None:
            names = set(lc.modifies_vars)
        label = "loop@%d" % s.lineno
        idx_name = "__idx_%d" % s.lineno
        pre_loop = st.fork()
        frame = st.frames.setdefault(ctx.fid, {})

        def eval_inv(state, text_ast, idx):
            sctx = ctx.derive(spec=True, pre=pre_loop, raises=[], returns=[])
            state.frames.setdefault(ctx.fid, {})["idx"] = VInt(idx)
            if is_for and not isinstance(seq, tuple):
                state.ghost["__seq"] = seq
            v = self.truth(self.eval(text_ast, state, sctx), state)
            state.frames[ctx.fid].pop("idx", None)
            return v

        # 1. invariant holds on entry
        if lc is not None:
            for lab, text, node in lc.invariants:
                self.oblige(st, "inv.init", "%s/%s" % (label, lab), eval_inv(st.fork(), node, z3.IntVal(0)),
                            span=s.lineno)
        # 2. arbitrary iteration: havoc
        idx = fresh("idx", I)
        hst = st
        for n in names:
            # nonlocal writes go to the frame that owns the name; we only havoc in the current frame
            if n in frame or True:
                hst.frames[ctx.fid][n] = fresh("lv_" + n, Val)
                self.assumptions.append(z3.Not(is_Unbound(hst.frames[ctx.fid][n])) if False else z3.BoolVal(True))
        havoc_heap = heapw if (lc is None or lc.havoc_heap is None) else lc.havoc_heap
        if lc is not None and lc.modifies:
            sctx = ctx.derive(spec=True, pre=pre_loop, raises=[], returns=[])
            hst.heap = self.havoc_refs(hst.heap, lc.modifies, pre_loop, None, None, loop_ctx=sctx)
        elif havoc_heap:
            hst.heap = Heap(fresh("DVl", DVs), fresh("DPl", DPs), fresh("LSl", LSs))
        for g in list(hst.ghost):
            if lc is None or lc.modifies_vars is None or g in (lc.modifies_vars or []):
                t = hst.ghost[g]
                if isinstance(t, Heap):
                    continue
                if heapw or lc is not None:
                    hst.ghost[g] = fresh("g_" + g, t.sort())
        self.assume(hst, idx >= 0)
        if lc is not None:
            for lab, text, node in lc.invariants:
                self.assume(hst, eval_inv(hst, node, idx))
        # exit state: invariant + exhausted
        exit_st = hst.fork()
        breaks, conts = [], []
        if is_for:
            self.assume(hst, idx <= self.it_len(seq))
            exit_st.guard(idx == self.it_len(seq)) if lc is not None else None
            body_st = hst
            body_st.guard(idx < self.it_len(seq))
            self.it_assign(s.target, seq, idx, body_st, ctx)
        else:
            body_st = hst
            c = self.truth(self.eval(s.test, body_st, ctx), body_st)
            ex2 = body_st.fork()
            ex2.guard(z3.Not(c))
            exit_st = ex2
            body_st.guard(c)
        lctx = ctx.derive(breaks=breaks, continues=conts)
        end = self.exec_block(s.body, body_st, lctx)
        back = join([end] + conts)
        if back is not None and lc is not None:
            for lab, text, node in lc.invariants:
                self.oblige(back, "inv.keep", "%s/%s" % (label, lab), eval_inv(back.fork(), node, idx + 1),
                            span=s.lineno)
        if lc is None and is_for:
            # no invariant: exit state knows nothing about how far we got
            pass
        if exit_st is not None and s.orelse:
            exit_st = self.exec_block(s.orelse, exit_st, ctx)
        return join([exit_st] + breaks)

    # ------------------------------------------------------------------ expressions
    def eval(self, e, st, ctx):
        if st.dead:
            return VNone
        m = getattr(self, "e_" + type(e).__name__, None)
        if m is None:
            self.unsupported(st, ctx, "expr " + type(e).__name__, e)
            return VNone
        return m(e, st, ctx)

    def truth(self, v, st):
        if z3.is_bool(v):
            return v
        return simp(truthy(v, st.heap))

    def e_Constant(self, e, st, ctx):
        if isinstance(e.value, bytes):
            return VOpq(z3.IntVal(abs(hash(e.value)) % 100000))
        return self.const_val(e.value)

    def e_Name(self, e, st, ctx):
        if ctx.spec and e.id == "result" and "result" in st.frames.get(ctx.fid, {}):
            return st.frames[ctx.fid]["result"]
        if ctx.spec and e.id in st.ghost and not isinstance(st.ghost[e.id], Heap):
            return BI.box(st.ghost[e.id])
        return self.lookup(e.id, st, ctx, e)

    def e_JoinedStr(self, e, st, ctx):
        parts = []
        for v in e.values:
            if isinstance(v, ast.Constant):
                parts.append(sv(v.value))
            elif isinstance(v, ast.FormattedValue):
                x = self.eval(v.value, st, ctx)
                parts.append(BI.py_str2(self, st, x))
        if not parts:
            return VStr(sv(""))
        return VStr(simp(z3.Concat(*parts)) if len(parts) > 1 else parts[0])

    def e_Tuple(self, e, st, ctx):
        vals = [self.eval(x, st, ctx) for x in e.elts]
        return BI.new_list(self, st, vals, T_TUPLE)

    def e_List(self, e, st, ctx):
        vals = []
        for x in e.elts:
            if isinstance(x, ast.Starred):
                self.unsupported(st, ctx, "starred in list", e)
                return VNone
            vals.append(self.eval(x, st, ctx))
        return BI.new_list(self, st, vals, T_LIST)

    def e_Set(self, e, st, ctx):
        vals = [self.eval(x, st, ctx) for x in e.elts]
        return BI.new_list(self, st, vals, T_SET)

    def e_Dict(self, e, st, ctx):
        r = self.new_ref(T_DICT)
        st.heap = st.heap.dnew(r)
        for k, v in zip(e.keys, e.values):
            if k is None:
                # {**a}: shallow merge
                src = self.eval(v, st, ctx)
                BI.dict_update(self, st, ctx, VRef(r), src, e)
                continue
            kv = self.eval(k, st, ctx)
            vv = self.eval(v, st, ctx)
            BI.set_item(self, st, ctx, VRef(r), kv, vv, e)
        return VRef(r)

    def e_IfExp(self, e, st, ctx):
        c = self.truth(self.eval(e.test, st, ctx), st)
        return self.branch_val(st, c, lambda x: self.eval(e.body, x, ctx), lambda x: self.eval(e.orelse, x, ctx))

    def branch_val(self, st, c, f_then, f_else):
        c = self.name_bool(c)
        if z3.is_true(c):
            return f_then(st)
        if z3.is_false(c):
            return f_else(st)
        s1 = st.fork()
        s1.guard(c)
        s2 = st.fork()
        s2.guard(z3.Not(c))
        v1 = f_then(s1)
        v2 = f_else(s2)
        m = join2(c, s1, s2)
        if m is None:
            st.kill()
            return VNone
        st.assign(m)
        if s1.dead:
            return v2
        if s2.dead:
            return v1
        return ite_val(c, v1, v2)

    def e_BoolOp(self, e, st, ctx):
        is_and = isinstance(e.op, ast.And)

        def go(i, x):
            v = self.eval(e.values[i], x, ctx)
            if i == len(e.values) - 1:
                return v
            t = self.truth(v, x)
            if is_and:
                return self.branch_val(x, t, lambda y: go(i + 1, y), lambda y: v)
            return self.branch_val(x, t, lambda y: v, lambda y: go(i + 1, y))
        return go(0, st)

    def e_UnaryOp(self, e, st, ctx):
        v = self.eval(e.operand, st, ctx)
        if isinstance(e.op, ast.Not):
            return VBool(z3.Not(self.truth(v, st)))
        if isinstance(e.op, ast.USub):
            if BI.static_tag(v) == "opq":
                # -timedelta (the only opaque values the code negates): seconds negated (A2)
                o = fresh("neg_td", I)
                f = z3.Function("u_td_seconds", I, R)
                self.assume(st, f(o) == -f(oid(v)))
                return VOpq(o)
            self.raise_if(st, ctx, z3.Not(is_number(v)), "TypeError", node=e)
            return z3.If(is_Float(v), VFloat(-fval(v)), VInt(-as_int(v)))
        if isinstance(e.op, ast.UAdd):
            return v
        self.unsupported(st, ctx, "unary op", e)
        return VNone

    def e_BinOp(self, e, st, ctx):
        a = self.eval(e.left, st, ctx)
        b = self.eval(e.right, st, ctx)
        return self.binop(e.op, a, b, st, ctx, e)

    def binop(self, op, a, b, st, ctx, node):
        return BI.binop(self, st, ctx, op, a, b, node)

    def e_Compare(self, e, st, ctx):
        left = self.eval(e.left, st, ctx)
        if len(e.ops) == 1:
            right = self.eval(e.comparators[0], st, ctx)
            return VBool(BI.compare(self, st, ctx, e.ops[0], left, right, e))
        # chained: a < b < c
        res = None
        cur = left
        for op, cmp_ in zip(e.ops, e.comparators):
            right = self.eval(cmp_, st, ctx)
            c = BI.compare(self, st, ctx, op, cur, right, e)
            res = c if res is None else z3.And(res, c)
            cur = right
        return VBool(res)

    def e_Attribute(self, e, st, ctx):
        dn = dotted_name(e)
        if dn is not None:
            ext = self.reg.match_external(dn)
            if ext is not None and ext.params is None:
                # external *value* (attribute), e.g. self.logger
                return self.external_value(dn, ext, st, ctx)
        v = self.eval(e.value, st, ctx)
        o = self.obj_of(v)
        if o is not None:
            if o[0] == "module":
                m2 = self.repo.module_by_dotted(o[1])
                if m2 is not None:
                    r = self.module_member(m2, e.attr)
                    if r is not None:
                        return r
                full = o[1] + "." + e.attr
                if full in BI.BUILTIN_FUNCS:
                    return self.obj("builtin", full)
                return self.obj("module", full)
            if o[0] == "class":
                return self.obj("builtin", o[1] + "." + e.attr)
            if o[0] == "builtin":
                return self.obj("builtin", o[1] + "." + e.attr)
        self.key_universe.add(e.attr)

        def getattr_(x, o):
            if BI.static_tag(o) == "opq":
                return VOpq(fresh("opqattr_" + e.attr, I))          # attribute of an external object: opaque (A2)
            self.raise_if(x, ctx, z3.Not(z3.Or(is_Ref(o), is_Opq(o))), "AttributeError", node=e)
            got = self.close_refs(BI.hget(self, x, rval(o), sv(e.attr)))
            if BI.static_tag(o) == "ref":
                return got
            return z3.If(is_Opq(o), VOpq(fresh("opqattr_" + e.attr, I)), got)
        return BI.ref_split(self, st, ctx, v, getattr_)

    def external_value(self, dn, ext, st, ctx):
        return VOpq(z3.IntVal(abs(hash(dn)) % 1000000))

    def e_Subscript(self, e, st, ctx):
        obj = self.eval(e.value, st, ctx)
        if isinstance(e.slice, ast.Slice):
            lo = self.eval(e.slice.lower, st, ctx) if e.slice.lower is not None else None
            hi = self.eval(e.slice.upper, st, ctx) if e.slice.upper is not None else None
            if e.slice.step is not None:
                stp = self.eval(e.slice.step, st, ctx)
                if lo is None and hi is None and is_true(z3.And(is_Int(stp), ival(stp) == -1)) and \
                        BI.static_tag(obj) == "ref" and BI.ref_kind(self, obj) in (T_LIST, T_TUPLE):
                    # x[::-1]: a new list holding the reversed sequence
                    from .vals import u_rev, rev_facts
                    seq = st.heap.lget(rval(obj))
                    self.assumptions.append(rev_facts(seq))
                    return BI.new_list_seq(self, st, u_rev(seq), T_LIST)
                if lo is None and hi is None and is_true(z3.And(is_Int(stp), ival(stp) == -1)):
                    from .vals import u_rev, rev_facts
                    self.raise_if(st, ctx, z3.Not(BI.is_list(obj)), "TypeError", node=e)
                    if st.dead:
                        return VNone
                    seq = st.heap.lget(rval(obj))
                    self.assumptions.append(rev_facts(seq))
                    return BI.new_list_seq(self, st, u_rev(seq), T_LIST)
                self.unsupported(st, ctx, "slice step", e)
                return VNone
            return BI.get_slice(self, st, ctx, obj, lo, hi, e)
        k = self.eval(e.slice, st, ctx)
        return BI.get_item(self, st, ctx, obj, k, e)

    def e_Lambda(self, e, st, ctx):
        return self.obj("lambda", e, ctx.fid, ctx.unit)

    def e_Await(self, e, st, ctx):
        return self.eval(e.value, st, ctx)     # DESIGN 2.2: awaited call = ordinary call

    def e_Starred(self, e, st, ctx):
        self.unsupported(st, ctx, "starred", e)
        return VNone

    def e_ListComp(self, e, st, ctx):
        return BI.comprehension(self, st, ctx, e, "list")

    def e_GeneratorExp(self, e, st, ctx):
        return BI.comprehension(self, st, ctx, e, "gen")

    def e_DictComp(self, e, st, ctx):
        return BI.comprehension(self, st, ctx, e, "dict")

    def e_SetComp(self, e, st, ctx):
        return BI.comprehension(self, st, ctx, e, "set")

    # ------------------------------------------------------------------ calls
    def e_Call(self, e, st, ctx):
        dn = dotted_name(e.func)
        # 1. syntactic externals (self.logger.*, self.event_dispatcher.publish, ...)
        if dn is not None:
            ext = self.reg.match_external(dn)
            if ext is not None:
                args, kwargs = self.eval_args(e, st, ctx)
                if st.dead:
                    return VNone
                self.ext_calls.add(dn)
                return self.apply_contract(ext, None, args, kwargs, st, ctx, e, label=dn)
        # 2. spec-mode special forms
        if ctx.spec and isinstance(e.func, ast.Name):
            r = BI.spec_form(self, st, ctx, e)
            if r is not NotImplemented:
                return r
        # 3. method call on a value
        if isinstance(e.func, ast.Attribute):
            recv_node = e.func.value
            # super().__init__ etc.
            recv = self.eval(recv_node, st, ctx)
            if st.dead:
                return VNone
            o = self.obj_of(recv)
            if o is None:
                # instance method of the class under verification?
                if isinstance(recv_node, ast.Name) and recv_node.id == "self":
                    u = self.find_method(ctx.unit, e.func.attr)
                    if u is not None:
                        args, kwargs = self.eval_args(e, st, ctx)
                        return self.call_unit(u, None, [recv] + args, kwargs, st, ctx, e)
                args, kwargs = self.eval_args(e, st, ctx)
                if st.dead:
                    return VNone
                mext = self.reg.match_external("." + e.func.attr)
                if mext is not None:
                    # a method declared external by name (receiver of a class the verifier does not look into)
                    self.ext_calls.add("." + e.func.attr)
                    return self.apply_contract(mext, None, [recv] + args, kwargs, st, ctx, e, label="." + e.func.attr)
                return BI.call_method(self, st, ctx, recv, e.func.attr, args, kwargs, e)
            if o[0] == "locals":
                args, kwargs = self.eval_args(e, st, ctx)
                return BI.locals_get(self, st, ctx, o[1], e.func.attr, args, e)
        f = self.eval(e.func, st, ctx)
        if st.dead:
            return VNone
        args, kwargs = self.eval_args(e, st, ctx)
        if st.dead:
            return VNone
        return self.call_value(f, args, kwargs, st, ctx, e)

    def find_method(self, unit, name):
        u = unit
        while u is not None and u.parent is not None:
            u = u.parent
        if u is None or u.cls is None:
            return None
        return u.module.units.get(u.cls + "." + name)

    def eval_args(self, e, st, ctx):
        args = []
        for a in e.args:
            if isinstance(a, ast.Starred):
                v = self.eval(a.value, st, ctx)
                seq = simp(st.heap.lget(rval(v)))
                ln = simp(z3.Length(seq))
                if not z3.is_int_value(ln):
                    args.append(("*", v))
                    continue
                for i in range(ln.as_long()):
                    args.append(simp(seq[i]))
            else:
                args.append(self.eval(a, st, ctx))
        kwargs = {}
        for k in e.keywords:
            if k.arg is None:
                kwargs["**"] = self.eval(k.value, st, ctx)
            else:
                kwargs[k.arg] = self.eval(k.value, st, ctx)
        return args, kwargs

    def fn_leaves(self, f, cond=None):
        """Enumerate (condition, concrete object) leaves of an ITE tree of VFn values."""
        f = simp(f)
        cond = z3.BoolVal(True) if cond is None else cond
        if z3.is_app(f) and f.decl().kind() == z3.Z3_OP_ITE:
            c = f.arg(0)
            return self.fn_leaves(f.arg(1), z3.And(cond, c)) + self.fn_leaves(f.arg(2), z3.And(cond, z3.Not(c)))
        return [(simp(cond), f)]

    def call_value(self, f, args, kwargs, st, ctx, node):
        leaves = self.fn_leaves(f)
        if len(leaves) == 1:
            return self.call_leaf(leaves[0][1], args, kwargs, st, ctx, node)
        outs = []
        base = st.fork()
        for c, leaf in leaves:
            s1 = base.fork()
            s1.guard(c)
            if s1.dead:
                continue
            v = self.call_leaf(leaf, args, kwargs, s1, ctx, node)
            outs.append((s1, v))
        m, v = join_vals(outs)
        if m is None:
            st.kill()
            return VNone
        st.assign(m)
        return v

    def call_leaf(self, f, args, kwargs, st, ctx, node):
        o = self.obj_of(f)
        if o is None:
            if ctx.spec:
                raise OutOfSubset("spec: call of non-function", node)
            # calling an opaque callback value
            cb = self.reg.match_external("<callback>")
            if cb is not None:
                self.raise_if(st, ctx, z3.Not(z3.Or(is_Opq(f), is_Fn(f))), "TypeError", node=node)
                return self.apply_contract(cb, None, [f] + [a for a in args], kwargs, st, ctx, node, label="<callback>")
            self.raise_if(st, ctx, z3.Not(z3.Or(is_Opq(f), is_Fn(f))), "TypeError", node=node)
            self.unsupported(st, ctx, "call of unknown value", node)
            return VNone
        kind = o[0]
        if kind == "closure":
            return self.call_unit(o[1], o[2], args, kwargs, st, ctx, node)
        if kind == "lambda":
            return self.call_lambda(o[1], o[2], o[3], args, st, ctx, node)
        if kind == "builtin":
            return BI.call_builtin(self, st, ctx, o[1], args, kwargs, node)
        if kind == "class":
            return BI.call_class(self, st, ctx, o[1], args, kwargs, node)
        if kind == "specfn":
            return self.call_specfn(o[1], args, st, ctx, node)
        if kind == "module":
            ext = self.reg.match_external(o[1])
            if ext is not None:
                self.ext_calls.add(o[1])
                return self.apply_contract(ext, None, args, kwargs, st, ctx, node, label=o[1])
            return BI.call_builtin(self, st, ctx, o[1], args, kwargs, node)
        self.unsupported(st, ctx, "call of " + kind, node)
        return VNone

    def call_lambda(self, lam, fid, unit, args, st, ctx, node):
        nf = self.new_frame(_LambdaUnit(lam, unit), fid)
        fr = {}
        for p, a in zip(lam.args.args, args):
            fr[p.arg] = a
        st.frames[nf] = fr
        sub = ctx.derive(fid=nf, unit=_LambdaUnit(lam, unit))
        v = self.eval(lam.body, st, sub)
        st.frames.pop(nf, None)
        return v

    def call_specfn(self, name, args, st, ctx, node):
        unit = self.reg.spec_units[name]
        return self.inline_unit(unit, None, args, {}, st, ctx, node)

    def call_unit(self, unit, closure_fid, args, kwargs, st, ctx, node):
        c = self.reg.by_key.get(unit.key)
        if c is not None and not c.inline and not getattr(self, "inline_all", False) and not ctx.spec:
            self.contracted_calls.add(unit.key)
            return self.apply_contract(c, unit, args, kwargs, st, ctx, node, label=unit.key.split("::")[1],
                                       closure_fid=closure_fid)
        return self.inline_unit(unit, closure_fid, args, kwargs, st, ctx, node)

    def bind_params(self, unit_or_names, args, kwargs, st, ctx, node, closure_fid=None, unit=None):
        """-> dict name -> Val"""
        if isinstance(unit_or_names, list):
            params = [(n, None) for n in unit_or_names]
            has_default = lambda d: True
        else:
            params = unit_or_names.params()
        out = {}
        pos = [a for a in args]
        names = [p for p, _ in params]
        i = 0
        for a in pos:
            if isinstance(a, tuple) and a[0] == "*":
                self.unsupported(st, ctx, "symbolic *args", node)
                return out
            if i >= len(names):
                break
            out[names[i]] = a
            i += 1
        star = kwargs.get("**")
        for n, d in params:
            if n in out:
                continue
            if n in kwargs:
                out[n] = kwargs[n]
                continue
            dv = None
            if d is not None:
                dctx = ctx.derive(fid=closure_fid, unit=unit.parent if (unit is not None and unit.parent is not None) else (unit or ctx.unit))
                dv = self.eval(d, st, dctx) if isinstance(d, ast.AST) else d
            if star is not None:
                self.key_universe.add(n)
                has = st.heap.dhas(rval(star), sv(n))
                got = st.heap.dget(rval(star), sv(n))
                out[n] = ite(has, got, dv if dv is not None else VUnbound)
            elif dv is not None:
                out[n] = dv
            else:
                if isinstance(unit_or_names, list):
                    out[n] = VNone
                else:
                    self.raise_if(st, ctx, z3.BoolVal(True), "TypeError",
                                  VStr(sv("missing argument " + n)), node=node)
        return out

    def inline_unit(self, unit, closure_fid, args, kwargs, st, ctx, node):
        if ctx.depth > self.max_inline_depth or self.call_depth > 40:
            self.unsupported(st, ctx, "recursion/inline depth at " + unit.key, node)
            return VNone
        if not getattr(unit, "is_spec", False):
            self.inlined.add(unit.key)
        fid = self.new_frame(unit, closure_fid)
        bound = self.bind_params(unit, args, kwargs, st, ctx, node, closure_fid, unit)
        if st.dead:
            return VNone
        st.frames[fid] = dict(bound)
        returns = []
        sub = Ctx(fid, unit, ctx.raises, returns, None, None, ctx.spec, None, ctx.pre, ctx.depth + 1)
        self.call_depth += 1
        try:
            end = self.exec_block(unit.node.body, st, sub)
        finally:
            self.call_depth -= 1
        pairs = list(returns)
        if end is not None:
            pairs.append((end, VNone))
        m, v = join_vals(pairs)
        if m is None:
            st.kill()
            return VNone
        m.frames.pop(fid, None) if not self.frame_escapes(fid) else None
        st.assign(m)
        return v

    def frame_escapes(self, fid):
        # a frame must be kept if a closure created in it is still referenced; keep it simple: keep frames
        # that have closures registered against them
        for o in self.objs:
            if o[0] in ("closure", "lambda", "locals") and len(o) > 2 and o[2] == fid:
                return True
            if o[0] == "locals" and o[1] == fid:
                return True
        return False

    # ------------------------------------------------------------------ contracts
    def spec_frame(self, contract, unit, bound, st, closure_fid):
        fid = self.new_frame(unit, closure_fid)
        st.frames[fid] = dict(bound)
        return fid

    def eval_spec(self, node, st, fid, unit, pre, extra=None):
        sctx = Ctx(fid, unit, [], [], None, None, True, None, pre, 0)
        if extra:
            st.frames.setdefault(fid, {}).update(extra)
        return self.eval(node, st, sctx)

    def apply_contract(self, c, unit, args, kwargs, st, ctx, node, label="", closure_fid=None):
        if unit is not None:
            bound = self.bind_params(unit, args, kwargs, st, ctx, node, closure_fid, unit)
        else:
            bound = self.bind_params(list(c.params or []), args, kwargs, st, ctx, node)
        if st.dead:
            return VNone
        line = getattr(node, "lineno", 0)
        spec_unit = unit if unit is not None else ctx.unit
        fid = self.spec_frame(c, spec_unit, bound, st, closure_fid if unit is not None else ctx.fid)
        if ctx.spec:
            # calling a contracted function from a spec: use its ensures as a definition of result
            pass
        pre = st.fork()
        # declared parameter types are preconditions too
        for pname, typ in sorted(c.types.items()):
            if pname in bound and typ not in ("any",) and not ctx.spec:
                tp = self.type_pred(typ, bound[pname])
                if tp is not None and not is_true(tp):
                    self.oblige(st, "pre@site", "%s/type-%s" % (label, pname), tp, span=line)
                    self.assume(st, tp)
        # requires
        for lab, text, n in c.requires:
            g = self.truth(self.eval_spec(n, st.fork(), fid, spec_unit, pre), st)
            if not ctx.spec:
                self.oblige(st, "pre@site", "%s/%s" % (label, lab), g, span=line)
            self._cur_src = "requires %s/%s" % (label, lab)
            self.assume(st, g)
            self._cur_src = None
        for g, n in c.ghost_pre.items():
            v = self.eval_spec(n, pre.fork(), fid, spec_unit, pre)
            st.ghost[g] = BI.unbox_like(v, st.ghost.get(g), pre)
        # exceptional exits
        for cls, cond in c.raises_ast.items():
            if ctx.spec:
                break
            if cond is None:
                b = fresh("raises_" + cls.replace("*", "X"), B)
            else:
                b = self.truth(self.eval_spec(cond, st.fork(), fid, spec_unit, pre), st)
            rs = st.fork()
            rs.guard(b)
            self.trace_log.append(("callee-raises %s %s" % (label, cls), line, b, st.pc))
            if not rs.dead:
                if c.modifies == "ALL":
                    rs.heap = Heap(fresh("DVx", DVs), fresh("DPx", DPs), fresh("LSx", LSs))
                ex = Exc(cls, self.new_exc(rs, cls, VStr(fresh("excmsg", S))))
                for lab, text, n in c.xensures.get(cls, []):
                    g = self.truth(self.eval_spec(n, rs, fid, spec_unit, pre), rs)
                    self.assume(rs, g)
                rs.frames.pop(fid, None)
                ctx.raises.append((rs, ex))
            st.guard(z3.Not(b))
        if st.dead:
            return VNone
        # havoc what the callee may modify
        if c.modifies == "ALL":
            nh = Heap(fresh("DVh", DVs), fresh("DPh", DPs), fresh("LSh", LSs))
            if c.preserves == "PROTECTED":
                pvals = list(getattr(self, "protected_vals", []))
            else:
                pvals = [self.eval_spec(pn, pre.fork(), fid, spec_unit, pre) for pn in c.preserves]
            # preserved objects: stated as facts about the fresh heap (not as a store chain, which would make every
            # later read compare its reference against each preserved one)
            seen_p = set()
            for pv in pvals:
                r = simp(rval(pv))
                if r.get_id() in seen_p:
                    continue
                seen_p.add(r.get_id())
                isr = simp(is_Ref(pv))
                fact = z3.And(z3.Select(nh.DV, r) == BI.heap_select(self, st, st.heap.DV, r),
                              z3.Select(nh.DP, r) == BI.heap_select(self, st, st.heap.DP, r),
                              z3.Select(nh.LS, r) == BI.heap_select(self, st, st.heap.LS, r))
                self.assume(st, fact if z3.is_true(isr) else z3.Implies(isr, fact))
            st.heap = nh
        elif c.modifies_ast:
            st.heap = self.havoc_refs(st.heap, c.modifies_ast, pre, fid, spec_unit)
        # result
        if c.fresh_result in ("dict", "list", "tuple", "obj"):
            kind = {"dict": T_DICT, "list": T_LIST, "tuple": T_TUPLE, "obj": T_OBJ}[c.fresh_result]
            r = self.new_ref(kind)
            if kind in (T_DICT, T_OBJ):
                st.heap = Heap(z3.Store(st.heap.DV, r, fresh("rv", KV)), z3.Store(st.heap.DP, r, fresh("rp", KP)),
                               st.heap.LS)
            else:
                st.heap = st.heap.lset(r, fresh("rl", SeqV))
            result = VRef(r)
        elif c.result_type:
            result = self.typed_symbol("res_%s!%d" % (re.sub(r"[^A-Za-z0-9_]", "_", label), next_id()), c.result_type)
        else:
            result = fresh("res", Val)
            self.assumptions.append(z3.Not(is_Unbound(result)))
        # ghost updates (simultaneous, evaluated in the pre state)
        newg = {}
        for g, n in c.ghost.items():
            if isinstance(n, ast.Name) and n.id == "__heap__":
                newg[g] = pre.heap
                continue
            gx = {"retval": result}
            if "result" not in bound:
                gx["result"] = result
            v = self.eval_spec(n, pre.fork(), fid, spec_unit, pre, extra=gx)
            newg[g] = BI.unbox_like(v, st.ghost.get(g), pre)
        if unit is not None and not c.pure:
            # a contracted *unit* may change any ghost variable; its ensures say how (externals only do
            # what their `ghost=` clause says)
            for g in list(st.ghost):
                if g in newg or g.startswith("__") or g in getattr(self.reg, "ghost_const", ()):
                    continue
                if c.ghost_modifies is None:
                    if g in self.reg.markers():
                        continue          # call markers count direct calls only
                elif g not in c.ghost_modifies:
                    continue
                t = st.ghost[g]
                if isinstance(t, Heap):
                    st.ghost[g] = Heap(fresh("gDV_" + g, DVs), fresh("gDP_" + g, DPs), fresh("gLS_" + g, LSs))
                else:
                    st.ghost[g] = fresh("g_" + g, t.sort())
        for g, v in newg.items():
            st.ghost[g] = v
        st.frames[fid]["retval"] = result
        if "result" not in bound:
            st.frames[fid]["result"] = result
        for g, condn in c.ghost_post.items():
            cond = self.name_bool(self.truth(self.eval_spec(condn, st.fork(), fid, spec_unit, pre), st))
            st.ghost[g] = Heap.ite(cond, st.heap, st.ghost[g])
        for lab, text, n in c.ensures:
            g = self.truth(self.eval_spec(n, st, fid, spec_unit, pre), st)
            self._cur_src = "ensures %s/%s" % (label, lab)
            self.assume(st, g)
            self._cur_src = None
        st.frames.pop(fid, None)
        return result

    def havoc_refs(self, heap, entries, pre, fid, unit, sctx_pre=None, loop_ctx=None):
        """Havoc the contents of the objects named by modifies entries [(expr, guard)] (evaluated in `pre`)."""
        h = heap
        for mn, gn in entries:
            if loop_ctx is not None:
                mv = self.eval(mn, pre.fork(), loop_ctx)
                g = self.truth(self.eval(gn, pre.fork(), loop_ctx), pre) if gn is not None else z3.BoolVal(True)
            else:
                mv = self.eval_spec(mn, pre.fork(), fid, unit, pre)
                g = self.truth(self.eval_spec(gn, pre.fork(), fid, unit, pre), pre) if gn is not None else z3.BoolVal(True)
            r = rval(mv)
            h2 = Heap(z3.Store(h.DV, r, fresh("hv", KV)), z3.Store(h.DP, r, fresh("hp", KP)),
                      z3.Store(h.LS, r, fresh("hl", SeqV)))
            h = Heap.ite(simp(g), h2, h) if not is_true(g) else h2
        return h

    def modified_refs(self, entries, pre, fid, unit):
        out = []
        for mn, gn in entries:
            mv = self.eval_spec(mn, pre.fork(), fid, unit, pre)
            g = self.truth(self.eval_spec(gn, pre.fork(), fid, unit, pre), pre) if gn is not None else z3.BoolVal(True)
            out.append((rval(mv), simp(g)))
        return out

    # ------------------------------------------------------------------ verifying a unit against its contract
    def verify_unit(self, key, contract=None, mode="contract"):
        """Generate the obligations of unit `key`.  Returns the list of new obligations."""
        unit = self.repo.unit(key) if isinstance(key, str) else key
        c = contract or self.reg.by_key.get(unit.key) or Contract_default(unit.key)
        first = len(self.obligations)
        self.verified_unit = (unit.key, c)
        # a contract may carry its own scope (a Registry): externals and callee contracts that apply while THIS unit is
        # verified, ahead of the property-wide ones (so that two units of one property can see the same callee differently)
        import collections
        if not hasattr(self, "_base_by_key"):
            self._base_by_key = self.reg.by_key
        sc = getattr(c, "scope", None)
        self.reg.local_externals = list(sc.externals) if sc is not None else []
        self.reg.by_key = collections.ChainMap(sc.by_key, self._base_by_key) if sc is not None else self._base_by_key
        self.reg._markers = None
        self.obl_prefix = unit.key.split("::")[1] if "::" in unit.key else unit.key
        # synthetic frames for the enclosing units (closure environment)
        chain = []
        u = unit.parent
        while u is not None:
            chain.append(u)
            u = u.parent
        self.synthetic_frames = self.synthetic_frames or {}
        from . import state as _state_mod
        _state_mod.missing_hook = self._missing_in_join
        parent_fid = None
        for u in reversed(chain):
            f = self.new_frame(u, parent_fid)
            self.synthetic_frames[f] = c.env
            parent_fid = f
        fid = self.new_frame(unit, parent_fid)
        heap0 = Heap.symbolic("0_%d" % fid)
        ghost = {}
        for g, sort in self.reg.ghost_sorts.items():
            if sort == "heap":
                ghost[g] = heap0
            else:
                ghost[g] = z3.Const("g0_%s_%d" % (g, fid), {"bool": B, "int": I, "val": Val, "str": S,
                                                            "real": R, "seq": SeqV}[sort])
        # the wall clock at entry: old(NOW()); every time.time() read is >= the previous one (A5)
        ghost["__clock"] = z3.Const("g0_clock_%d" % fid, R)
        self.assumptions.append(ghost["__clock"] >= 0)
        st = State(z3.BoolVal(True), {}, heap0, ghost)
        for pf in self.synthetic_frames:
            st.frames.setdefault(pf, {})
        frame = {}
        self.param_syms = {}
        for name, default in unit.params():
            typ = c.types.get(name, "obj" if name == "self" else "any")
            v = self.typed_symbol("p_" + name, typ)
            frame[name] = v
            self.param_syms[name] = (v, typ)
        st.frames[fid] = frame
        self.pre_state = None
        ctx = Ctx(fid, unit, [], [], None, None, False, None, None, 0)
        # requires
        pre0 = st.fork()
        for lab, text, n in c.requires:
            g = self.truth(self.eval_spec(n, st, fid, unit, pre0), st)
            self.assume(st, g)
        for gname, text in c.ghost_init.items():
            n = ast.parse(text, mode="eval").body
            v = self.eval_spec(n, st, fid, unit, pre0)
            st.ghost[gname] = BI.unbox_like(v, st.ghost.get(gname), st)
        self.protected_vals = [self.eval_spec(pn, st.fork(), fid, unit, pre0) for pn in c.protected]
        if c.distinct:
            dvals = [simp(rval(self.eval_spec(pn, st.fork(), fid, unit, pre0))) for pn in c.distinct]
            self.assumptions.append(z3.Distinct(*dvals))
            self.distinct_groups = getattr(self, "distinct_groups", []) + [set(d.get_id() for d in dvals)]
            self.__dict__.setdefault("_keepalive", []).append(dvals)
        self.oblige(st, "cover", "requires-satisfiable", z3.BoolVal(True), expect="sat")
        for lab, text, n in c.covers:
            g = self.truth(self.eval_spec(n, st.fork(), fid, unit, pre0), st)
            self.oblige(st, "cover", lab, g, expect="sat")
        pre = st.fork()
        self.pre_state = pre
        self.pre_ghost = dict(pre.ghost)
        alloc0 = len(self.allocated)
        end = self.exec_block(unit.node.body, st, ctx)
        pairs = list(ctx.returns)
        if end is not None:
            pairs.append((end, VNone))
        fin, result = join_vals(pairs)
        self.final_state, self.final_result, self.final_raises = fin, result, ctx.raises
        if fin is not None:
            fin.frames.setdefault(fid, {})
            # evaluate ensures with parameters as in the PRE state (contracts speak about entry values of params)
            efid = self.new_frame(unit, parent_fid)
            fin.frames[efid] = dict(pre.frames[fid])
            fin.frames[efid]["retval"] = result
            if "result" not in pre.frames[fid]:
                fin.frames[efid]["result"] = result
            pre.frames[efid] = dict(pre.frames[fid])
            for lab, text, n in c.ensures:
                g = self.truth(self.eval_spec(n, fin, efid, unit, pre), fin)
                self.oblige(fin, "post", lab, g, span=unit.span()[0])
            self.frame_obligation(c, unit, pre, fin, efid, alloc0, "frame")
            for g, condn in c.ghost_post.items():
                cond = self.truth(self.eval_spec(condn, fin.fork(), efid, unit, pre), fin)
                snap = fin.ghost[g]
                DV, DP, LS = snap.DV, snap.DP, snap.LS
                for r in self.allocated[alloc0:]:
                    # objects allocated by the unit itself (e.g. its result tuple) are not part of the claim
                    DV = z3.Store(DV, r, z3.Select(fin.heap.DV, r))
                    DP = z3.Store(DP, r, z3.Select(fin.heap.DP, r))
                    LS = z3.Store(LS, r, z3.Select(fin.heap.LS, r))
                self.oblige(fin, "post", "snapshot-%s-is-final-heap" % g,
                            z3.Implies(cond, z3.And(fin.heap.DV == DV, fin.heap.DP == DP, fin.heap.LS == LS)),
                            span=unit.span()[0])
            for lab, text, n in c.covers_exit:
                g = self.truth(self.eval_spec(n, fin.fork(), efid, unit, pre), fin)
                self.oblige(fin, "cover", "exit-" + lab, g, expect="sat", span=unit.span()[0])
            if c.ghost_modifies is not None:
                for g in sorted(fin.ghost):
                    if g in c.ghost_modifies or g in c.ghost or g.startswith("__") or g not in pre.ghost:
                        continue
                    a, b_ = fin.ghost[g], pre.ghost[g]
                    goal = a.eq(b_) if isinstance(a, Heap) else (a == b_)
                    self.oblige(fin, "frame", "ghost-" + g, goal, span=unit.span()[0])
        # exceptional exits
        by_cls = {}
        for rs, exc in ctx.raises:
            if rs is None or rs.dead:
                continue
            by_cls.setdefault(exc.cls, []).append((rs, exc))
        for cls, lst in sorted(by_cls.items()):
            allowed = None
            for acls in c.raises:
                m = exc_is_subclass(cls, acls)
                if m is True or (cls == acls):
                    allowed = acls
                    break
            rs = join([x for x, _ in lst])
            if allowed is None:
                if len(lst) <= 40:
                    for x, _ in lst:
                        self.oblige(x, "xpost", "no-" + cls.replace("*", "Any"), z3.BoolVal(False),
                                    span=unit.span()[0],
                                    note="exception class not permitted by the contract must be unreachable")
                else:
                    self.oblige(rs, "xpost", "no-" + cls.replace("*", "Any"), z3.BoolVal(False), span=unit.span()[0],
                                note="exception class not permitted by the contract must be unreachable")
            else:
                cond = c.raises_ast.get(allowed)
                efid = self.new_frame(unit, parent_fid)
                rs.frames[efid] = dict(pre.frames[fid])
                pre.frames[efid] = dict(pre.frames[fid])
                if cond is not None:
                    g = self.truth(self.eval_spec(cond, pre.fork(), efid, unit, pre), pre)
                    self.oblige(rs, "xpost", "%s-only-if" % cls, g, span=unit.span()[0])
                for lab, text, n in c.xensures.get(allowed, []):
                    g = self.truth(self.eval_spec(n, rs, efid, unit, pre), rs)
                    self.oblige(rs, "xpost", "%s/%s" % (cls, lab), g, span=unit.span()[0])
        # the declared raise conditions must actually raise (strong exceptional postcondition)
        if fin is not None:
            for cls, cond in c.raises_ast.items():
                if cond is None:
                    continue
                efid = self.new_frame(unit, parent_fid)
                pre.frames[efid] = dict(pre.frames[fid])
                g = self.truth(self.eval_spec(cond, pre.fork(), efid, unit, pre), pre)
                self.oblige(fin, "xpost", "%s-if" % cls, z3.Not(g), span=unit.span()[0])
        self.pre_state = None
        return self.obligations[first:]

    def frame_obligation(self, c, unit, pre, fin, efid, alloc0, label):
        if c.modifies == "ALL":
            return
        DV, DP, LS = pre.heap.DV, pre.heap.DP, pre.heap.LS
        refs = []
        if c.modifies_ast:
            refs += self.modified_refs(c.modifies_ast, pre, efid, unit)
        refs += [(z3.IntVal(r), z3.BoolVal(True)) for r in self.allocated[alloc0:]]
        for r, g in refs:
            DV = ite(g, z3.Store(DV, r, z3.Select(fin.heap.DV, r)), DV)
            DP = ite(g, z3.Store(DP, r, z3.Select(fin.heap.DP, r)), DP)
            LS = ite(g, z3.Store(LS, r, z3.Select(fin.heap.LS, r)), LS)
        goal = z3.And(fin.heap.DV == DV, fin.heap.DP == DP, fin.heap.LS == LS)
        self.oblige(fin, "frame", label, goal, span=unit.span()[0])


def _mentions_unbound(t, cache):
    """Only values produced by merging with a missing binding (or `del`) can be VUnbound."""
    k = t.get_id()
    if k in cache:
        return cache[k]
    found = False
    stack = [t]
    seen = set()
    while stack:
        x = stack.pop()
        i = x.get_id()
        if i in seen:
            continue
        seen.add(i)
        if i in cache:
            if cache[i]:
                found = True
                break
            continue
        if z3.is_app(x):
            if x.decl().eq(Val.VUnbound):
                found = True
                break
            # only value positions (branches of If nodes); the heap never holds VUnbound
            if x.decl().kind() == z3.Z3_OP_ITE:
                stack.append(x.arg(1))
                stack.append(x.arg(2))
    cache[k] = found
    return found


_BAD_KINDS = set([z3.Z3_OP_SEQ_CONTAINS, z3.Z3_OP_SEQ_REPLACE, z3.Z3_OP_SEQ_REPLACE_RE, z3.Z3_OP_SEQ_REPLACE_RE_ALL,
                  z3.Z3_OP_SEQ_REPLACE_ALL, z3.Z3_OP_SEQ_INDEX, z3.Z3_OP_SEQ_LAST_INDEX, z3.Z3_OP_SEQ_IN_RE,
                  z3.Z3_OP_STR_TO_INT, z3.Z3_OP_INT_TO_STR, z3.Z3_OP_STRING_LT, z3.Z3_OP_STRING_LE,
                  z3.Z3_OP_SEQ_PREFIX, z3.Z3_OP_SEQ_SUFFIX])


def _has_string_ops(t, cache):
    """Does the term use string/sequence *operations* (anything beyond string literals and equality)?"""
    k = t.get_id()
    if k in cache:
        return cache[k]
    bad = False
    stack = [t]
    seen = set()
    while stack and not bad:
        x = stack.pop()
        i = x.get_id()
        if i in seen:
            continue
        seen.add(i)
        if z3.is_quantifier(x):
            stack.append(x.body())
            continue
        if z3.is_app(x):
            kind = x.decl().kind()
            if kind in _BAD_KINDS:
                bad = True
                break
            stack.extend(x.children())
    cache[k] = bad
    return bad


def Contract_default(key):
    from .contracts import Contract
    return Contract(key, modifies="ALL", raises={"Exception": None})


class _LambdaUnit(object):
    def __init__(self, lam, unit):
        self.node = lam
        self.module = unit.module if unit is not None else None
        self.parent = unit
        self.cls = unit.cls if unit is not None else None
        self.nested = {}
        self.key = (unit.key if unit is not None else "") + ".<lambda>"

    def params(self):
        return [(a.arg, None) for a in self.node.args.args]


def _as_load(t):
    import copy
    t2 = copy.deepcopy(t)
    for n in ast.walk(t2):
        if hasattr(n, "ctx"):
            n.ctx = ast.Load()
    return t2


def _handler_classes(h):
    if h.type is None:
        return None
    if isinstance(h.type, ast.Tuple):
        return [_cls_name(x) for x in h.type.elts]
    return [_cls_name(h.type)]


def _cls_name(n):
    if isinstance(n, ast.Name):
        return n.id
    if isinstance(n, ast.Attribute):
        return n.attr
    raise OutOfSubset("exception class expression", n)


def _dead(st):
    s = st.fork()
    s.kill()
    return s
