"""
pyvc.vals -- the value and heap encoding (DESIGN.md 2.3, Appendix B).

Every Python value the executor manipulates is a z3 term of the datatype Val.
Containers and instances are references into three heap arrays:

  DV : Int -> (String -> Val)     dict / instance-attribute contents
  DP : Int -> (String -> Bool)    key presence
  LS : Int -> Seq(Val)            list / tuple contents

Reference *kinds* are given by the uninterpreted function ty(r); fresh
references are concrete positive integers handed out by the executor (and
their ty() is asserted as a ground fact), input references are symbolic and
assumed <= 0 (so they cannot alias anything allocated during execution).

Accessor names are deliberately unusual so the SMT-LIB text can be read by
cvc5 as well (it refuses overloaded names).
"""
import z3

z3.set_param("pp.max_depth", 100000)

_V = z3.Datatype("Val")
_V.declare("VNone")
_V.declare("VBool", ("bval", z3.BoolSort()))
_V.declare("VInt", ("ival", z3.IntSort()))
_V.declare("VFloat", ("fval", z3.RealSort()))
_V.declare("VStr", ("sval", z3.StringSort()))
_V.declare("VRef", ("rval", z3.IntSort()))      # dict / list / tuple / instance / exception object
_V.declare("VFn", ("fnid", z3.IntSort()))       # python-level object table: closures, classes, modules, builtins
_V.declare("VOpq", ("oid", z3.IntSort()))       # opaque external value
_V.declare("VUnbound")                          # name not (yet) bound on this path
Val = _V.create()

VNone = Val.VNone
VUnbound = Val.VUnbound
VBool, VInt, VFloat, VStr, VRef, VFn, VOpq = (
    Val.VBool, Val.VInt, Val.VFloat, Val.VStr, Val.VRef, Val.VFn, Val.VOpq)
is_None, is_Bool, is_Int, is_Float, is_Str, is_Ref, is_Fn, is_Opq, is_Unbound = (
    Val.is_VNone, Val.is_VBool, Val.is_VInt, Val.is_VFloat, Val.is_VStr,
    Val.is_VRef, Val.is_VFn, Val.is_VOpq, Val.is_VUnbound)
bval, ival, fval, sval, rval, fnid, oid = (
    Val.bval, Val.ival, Val.fval, Val.sval, Val.rval, Val.fnid, Val.oid)

I, B, R, S = z3.IntSort(), z3.BoolSort(), z3.RealSort(), z3.StringSort()
SeqV = z3.SeqSort(Val)
KV = z3.ArraySort(S, Val)          # contents of one dict
KP = z3.ArraySort(S, B)            # presence of one dict
DVs = z3.ArraySort(I, KV)
DPs = z3.ArraySort(I, KP)
LSs = z3.ArraySort(I, SeqV)

_HEAPISH = (KV, DVs, SeqV, LSs)

# reference kinds
T_DICT, T_LIST, T_TUPLE, T_SET, T_OBJ, T_EXC = 1, 2, 3, 4, 5, 6
ty = z3.Function("ty", I, I)                 # kind of a reference
cls_of = z3.Function("cls_of", I, I)         # class id (object table) of an instance / exception
# deep equality of two container values in a heap (uninterpreted beyond reference identity)
deq = z3.Function("deq", Val, Val, DVs, DPs, LSs, B)
# uninterpreted str() / repr() of non-primitive values, and len(json.dumps(x))
u_str = z3.Function("u_str", Val, DVs, DPs, LSs, S)
u_float_str = z3.Function("u_float_str", R, S)
u_pow = z3.Function("u_pow", R, R, R)
u_lower = z3.Function("u_lower", S, S)
u_int_of_real = z3.Function("u_int_of_real", R, I)
# reversal of a sequence: an uninterpreted function (so reversing the same sequence twice gives the same term) whose
# defining facts (length, element i = element n-1-i) are asserted by the executor at each use
u_rev = z3.Function("u_rev", SeqV, SeqV)


def rev_facts(s):
    r = u_rev(s)
    qi = z3.Const("q!rev", I)
    return z3.And(z3.Length(r) == z3.Length(s),
                  z3.ForAll([qi], z3.Implies(z3.And(qi >= 0, qi < z3.Length(s)), r[qi] == s[z3.Length(s) - 1 - qi])))

EMPTY_KP = z3.K(S, z3.BoolVal(False))
EMPTY_KV = z3.K(S, VNone)
EMPTY_SEQ = z3.Empty(SeqV)


def sv(s):
    return z3.StringVal(s)


_SIMP = {}
_SIMP_KEEP = []


def simp(t):
    """z3.simplify, memoised on term identity (terms are kept alive so ids are not reused)."""
    k = t.get_id()
    r = _SIMP.get(k)
    if r is None:
        r = z3.simplify(t)
        _SIMP[k] = r
        _SIMP[r.get_id()] = r
        _SIMP_KEEP.append(t)
        _SIMP_KEEP.append(r)
    return r


def is_true(t):
    return z3.is_true(simp(t))


def is_false(t):
    return z3.is_false(simp(t))


_fresh_n = [0]


CUR_NEXT_REF = [1]       # the executor's allocation frontier (refs >= this are not allocated yet)
ARRAY_BOUND = {}         # name of a base heap array / content constant -> allocation frontier when it was created


def fresh(prefix, sort):
    _fresh_n[0] += 1
    name = "%s!%d" % (prefix, _fresh_n[0])
    if sort in _HEAPISH:
        ARRAY_BOUND[name] = CUR_NEXT_REF[0]
    return z3.Const(name, sort)


def next_id():
    _fresh_n[0] += 1
    return _fresh_n[0]


def reset_fresh():
    _fresh_n[0] = 0


class Heap(object):
    """An immutable triple of heap arrays."""
    __slots__ = ("DV", "DP", "LS")

    def __init__(self, DV, DP, LS):
        self.DV, self.DP, self.LS = DV, DP, LS

    @staticmethod
    def symbolic(tag):
        ARRAY_BOUND["DV_" + tag] = 1
        ARRAY_BOUND["LS_" + tag] = 1
        return Heap(z3.Const("DV_" + tag, DVs), z3.Const("DP_" + tag, DPs),
                    z3.Const("LS_" + tag, LSs))

    @staticmethod
    def ite(c, a, b):
        if a is b:
            return a
        return Heap(_ite(c, a.DV, b.DV), _ite(c, a.DP, b.DP), _ite(c, a.LS, b.LS))

    def eq(self, other):
        return z3.And(self.DV == other.DV, self.DP == other.DP, self.LS == other.LS)

    # dicts ---------------------------------------------------------------
    def dget(self, r, k):
        return z3.Select(z3.Select(self.DV, r), k)

    def dhas(self, r, k):
        return z3.Select(z3.Select(self.DP, r), k)

    def dset(self, r, k, v):
        return Heap(z3.Store(self.DV, r, z3.Store(z3.Select(self.DV, r), k, v)),
                    z3.Store(self.DP, r, z3.Store(z3.Select(self.DP, r), k, z3.BoolVal(True))),
                    self.LS)

    def ddel(self, r, k):
        return Heap(self.DV,
                    z3.Store(self.DP, r, z3.Store(z3.Select(self.DP, r), k, z3.BoolVal(False))),
                    self.LS)

    def dnew(self, r):
        return Heap(z3.Store(self.DV, r, EMPTY_KV), z3.Store(self.DP, r, EMPTY_KP), self.LS)

    def dcopy(self, r, src):
        return Heap(z3.Store(self.DV, r, z3.Select(self.DV, src)),
                    z3.Store(self.DP, r, z3.Select(self.DP, src)), self.LS)

    def dempty(self, r):
        return z3.Select(self.DP, r) == EMPTY_KP

    # lists ---------------------------------------------------------------
    def lget(self, r):
        return z3.Select(self.LS, r)

    def lset(self, r, seq):
        return Heap(self.DV, self.DP, z3.Store(self.LS, r, seq))


def _ite(c, a, b):
    if a is b or a.eq(b):
        return a
    return z3.If(c, a, b)


def ite(c, a, b):
    c = simp(c) if not isinstance(c, bool) else z3.BoolVal(c)
    if z3.is_true(c):
        return a
    if z3.is_false(c):
        return b
    return _ite(c, a, b)


def ite_val(c, a, b):
    """If(c, a, b) on Val terms, keeping a common outermost constructor visible: If(c, VStr x, VStr y) is
    VStr(If(c, x, y)) -- the same value, but type dispatch downstream stays static."""
    try:
        if a.sort() == Val and b.sort() == Val and z3.is_app(a) and z3.is_app(b):
            da, db = a.decl(), b.decl()
            if da.eq(db) and da.kind() == z3.Z3_OP_DT_CONSTRUCTOR:
                if a.num_args() == 0:
                    return a
                if a.num_args() == 1 and not da.eq(Val.VRef):
                    return da(z3.If(c, a.arg(0), b.arg(0)))
    except Exception:
        pass
    return z3.If(c, a, b)


# --------------------------------------------------------------------------
# Python semantics of primitive operations on Val terms
# --------------------------------------------------------------------------

def truthy(v, heap):
    """bool(v)"""
    return z3.If(is_None(v), False,
           z3.If(is_Bool(v), bval(v),
           z3.If(is_Int(v), ival(v) != 0,
           z3.If(is_Float(v), fval(v) != 0,
           z3.If(is_Str(v), z3.Length(sval(v)) > 0,
           z3.If(is_Ref(v),
                 z3.If(ty(rval(v)) == T_DICT, z3.Not(heap.dempty(rval(v))),
                 z3.If(z3.Or(ty(rval(v)) == T_LIST, ty(rval(v)) == T_TUPLE),
                       z3.Length(heap.lget(rval(v))) > 0, True)),
                 True))))))


def is_number(v):
    return z3.Or(is_Int(v), is_Float(v), is_Bool(v))


def as_real(v):
    return z3.If(is_Int(v), z3.ToReal(ival(v)),
           z3.If(is_Bool(v), z3.If(bval(v), z3.RealVal(1), z3.RealVal(0)), fval(v)))


def as_int(v):
    """int payload of an int-or-bool value"""
    return z3.If(is_Bool(v), z3.If(bval(v), z3.IntVal(1), z3.IntVal(0)), ival(v))


def is_intlike(v):
    return z3.Or(is_Int(v), is_Bool(v))


def py_eq(a, b, heap):
    """a == b with Python's cross-type numeric equality; containers: identity or deq()."""
    num = z3.And(is_number(a), is_number(b))
    return z3.If(num, as_real(a) == as_real(b),
           z3.If(z3.And(is_Str(a), is_Str(b)), sval(a) == sval(b),
           z3.If(z3.And(is_None(a), is_None(b)), True,
           z3.If(z3.And(is_Ref(a), is_Ref(b)),
                 z3.If(rval(a) == rval(b), True, deq(a, b, heap.DV, heap.DP, heap.LS)),
           z3.If(z3.And(is_Fn(a), is_Fn(b)), fnid(a) == fnid(b),
           z3.If(z3.And(is_Opq(a), is_Opq(b)), oid(a) == oid(b), False))))))


def int_to_str(i):
    """str(i) for a mathematical integer (z3's str.from_int is "" for negatives)."""
    return z3.If(i >= 0, z3.IntToStr(i), z3.Concat(sv("-"), z3.IntToStr(-i)))


def py_str(v, heap):
    """str(v)"""
    return z3.If(is_Str(v), sval(v),
           z3.If(is_None(v), sv("None"),
           z3.If(is_Bool(v), z3.If(bval(v), sv("True"), sv("False")),
           z3.If(is_Int(v), int_to_str(ival(v)),
           z3.If(is_Float(v), u_float_str(fval(v)),
                 u_str(v, heap.DV, heap.DP, heap.LS))))))


DIGITS = z3.Range("0", "9")


def is_decimal(s):
    """s matches [0-9]+ (ASCII).  int(s) == str.to_int(s) exactly on this language."""
    return z3.InRe(s, z3.Plus(DIGITS))
