"""python3-vt -m pyvc.debug <prop> <target idx> <obligation substring> [ghost,names,...] : show one obligation in detail,
with (for a refuted one) the source-level trace of the counterexample: which ifs / raises were taken, ghost values."""
import sys, os
import z3
from . import api, solve
from .exec import Exec
from .vals import simp
from .state import Heap

def main():
    prop, idx, pat = sys.argv[1], int(sys.argv[2]), sys.argv[3]
    P = api.load_property(prop)
    tgt = P.targets[idx]
    ex = Exec(P.repo, P.reg, prop)
    ex.workdir = "/tmp/pyvc_q"
    os.makedirs(ex.workdir, exist_ok=True)
    if tgt.inline_all: ex.inline_all = True
    unit = P.repo.unit(tgt.key)
    obs = ex.verify_unit(unit, tgt.contract)
    for o in obs:
        if pat not in o.id: continue
        print("==", o.id, o.kind, "span", o.span, o.note)
        cache = {}
        txt, n = solve.build_query(ex, o, cache)
        print("assumptions used:", n, "chars", len(txt))
        open("/tmp/dbg.smt2", "w").write(txt)
        r = solve.decide(txt, "/tmp/pyvc_q", "dbg", timeout_s=60)
        print("status", r.status, r.log)
        if r.status != "sat":
            continue
        # in-process model (no strings expected in engine obligations)
        s = z3.Solver(); s.set("timeout", 60000)
        asm = solve.relevant_assumptions(ex.assumptions[:o.nassume], [o.pc, o.goal], {})
        for a in asm: s.add(a)
        s.add(o.pc); s.add(z3.Not(o.goal))
        if s.check() != z3.sat:
            print("in-process z3 could not reproduce the model; trying the string-abstracted query (model may be spurious)")
            fs = solve.abstract_strings(list(asm) + [o.pc, z3.Not(o.goal)])
            s = z3.Solver(); s.set("timeout", 60000)
            for f in fs: s.add(f)
            if s.check() != z3.sat:
                print("no model either"); continue
        m = s.model()
        def ev(t):
            try: return m.eval(t, model_completion=True)
            except Exception as e: return "?"
        print("-- trace (conditions that are TRUE in the model, with their path condition also true):")
        for what, line, c, pc in ex.trace_log:
            if z3.is_true(ev(pc)) and z3.is_true(ev(c)):
                print("   line %s: %s" % (line, what))
        fin = ex.final_state
        pre = ex.pre_ghost
        print("-- ghosts (pre -> final):")
        for g in sorted(fin.ghost):
            a, b = pre.get(g), fin.ghost[g]
            if isinstance(b, Heap): continue
            va, vb = ev(a) if a is not None else None, ev(b)
            if str(va) != str(vb):
                print("   %s: %s -> %s" % (g, str(va)[:80], str(vb)[:80]))
        if len(sys.argv) > 4:
            break

main()
