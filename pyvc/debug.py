"""python3-vt -m pyvc.debug <prop> <target idx> <obligation substring> : show one obligation in detail."""
import sys, os
import z3
from . import api, solve
from .exec import Exec
from .vals import simp

def main():
    prop, idx, pat = sys.argv[1], int(sys.argv[2]), sys.argv[3]
    P = api.load_property(prop)
    tgt = P.targets[idx]
    ex = Exec(P.repo, P.reg, prop)
    if tgt.inline_all: ex.inline_all = True
    unit = P.repo.unit(tgt.key)
    obs = ex.verify_unit(unit, tgt.contract)
    for o in obs:
        if pat not in o.id: continue
        print("==", o.id, o.kind, "span", o.span, o.note)
        pc, g = simp(o.pc), simp(o.goal)
        s = str(pc); print("PC:", s[:3000])
        s = str(g); print("GOAL:", s[:3000])
        cache = {}
        txt, n = solve.build_query(ex, o, cache)
        print("assumptions used:", n, "chars", len(txt))
        open("/tmp/dbg.smt2", "w").write(txt)
        r = solve.decide(txt, "/tmp/pyvc_q", "dbg", timeout_s=30)
        print("status", r.status, r.log)
        if len(sys.argv) > 4:
            break

main()
