"""
pyvc.bi_funcs -- builtin functions, class calls and the spec-mode forms.
"""
import ast
import z3

from .vals import *      # noqa
from .state import *     # noqa
from . import regex as RX


def _B():
    from . import builtins as b
    return b


def _isinstance(ex, st, ctx, v, cls, node):
    b = _B()
    o = ex.obj_of(cls)
    if o is None:
        # tuple of classes
        tag = b.static_tag(cls)
        if tag == "ref":
            seq = simp(st.heap.lget(rval(cls)))
            ln = simp(z3.Length(seq))
            if z3.is_int_value(ln):
                return z3.Or(*[_isinstance(ex, st, ctx, v, simp(seq[i]), node) for i in range(ln.as_long())])
        leaves = ex.fn_leaves(cls)
        if all(ex.obj_of(l) is not None for _, l in leaves):
            return z3.Or(*[z3.And(c, _isinstance(ex, st, ctx, v, l, node)) for c, l in leaves])
        ex.unsupported(st, ctx, "isinstance with unknown class", node)
        return z3.BoolVal(False)
    name = o[1]
    if name == "str":
        return is_Str(v)
    if name == "int":
        return z3.Or(is_Int(v), is_Bool(v))
    if name == "bool":
        return is_Bool(v)
    if name == "float":
        return is_Float(v)
    if name == "dict":
        return z3.And(is_Ref(v), ty(rval(v)) == T_DICT)
    if name == "list":
        return z3.And(is_Ref(v), ty(rval(v)) == T_LIST)
    if name == "tuple":
        return z3.And(is_Ref(v), ty(rval(v)) == T_TUPLE)
    if name == "set":
        return z3.And(is_Ref(v), ty(rval(v)) == T_SET)
    if name == "object":
        return z3.BoolVal(True)
    if name == "bytes":
        return is_Opq(v)
    if name in ("Mapping", "collections.abc.Mapping", "MutableMapping"):
        return z3.Or(z3.And(is_Ref(v), ty(rval(v)) == T_DICT), z3.And(is_Opq(v), z3.Function("u_isinst", I, S, B)(oid(v), sv("Mapping"))))
    if name in ("Sequence", "collections.abc.Sequence"):
        return z3.Or(is_Str(v), z3.And(is_Ref(v), z3.Or(ty(rval(v)) == T_LIST, ty(rval(v)) == T_TUPLE)),
                     z3.And(is_Opq(v), z3.Function("u_isinst", I, S, B)(oid(v), sv("Sequence"))))
    if o[0] in ("builtin", "module") and "." in name and name.split(".")[-1][:1].isupper():
        # a class the repository does not define (e.g. pottery's RedisDict bound at run time): only an opaque
        # external object can be an instance of it (A2)
        ex.trusted.add("external class " + name)
        return z3.And(is_Opq(v), z3.Function("u_isinst", I, S, B)(oid(v), sv(name)))
    ex.unsupported(st, ctx, "isinstance(_, %s)" % name, node)
    return z3.BoolVal(False)


def py_len(ex, st, ctx, v, node):
    b = _B()
    tag = b.static_tag(v)
    dk = b.dyn_kind(ex, st, v)
    if dk == "str":
        return str_len(ex, sval(v))
    if dk in ("list", "tuple", "set"):
        return z3.Length(st.heap.lget(rval(v)))
    isseq = z3.And(is_Ref(v), z3.Or(ty(rval(v)) == T_LIST, ty(rval(v)) == T_TUPLE, ty(rval(v)) == T_SET))
    isd = z3.And(is_Ref(v), ty(rval(v)) == T_DICT)
    ex.raise_if(st, ctx, z3.Not(z3.Or(is_Str(v), isseq, isd, is_Opq(v))), "TypeError", node=node)
    if tag == "opq" or (tag is None and not is_false(z3.And(st.pc, is_Opq(v)))):
        # an external sized object (bytes): its length is an uninterpreted non-negative integer (A2)
        ol = z3.Function("u_opqlen", I, I)(oid(v))
        ex.assumptions.append(z3.Function("u_opqlen", I, I)(oid(v)) >= 0)
        if tag == "opq":
            return ol
        rest = py_len_nonopq(ex, st, v)
        return z3.If(is_Opq(v), ol, rest)
    return py_len_nonopq(ex, st, v)


def py_len_nonopq(ex, st, v):
    isseq = z3.And(is_Ref(v), z3.Or(ty(rval(v)) == T_LIST, ty(rval(v)) == T_TUPLE, ty(rval(v)) == T_SET))
    dlen = z3.Function("u_dictlen", KP, I)
    dl = dlen(z3.Select(st.heap.DP, rval(v)))
    ex.assumptions.append(dl >= 0)
    ex.assumptions.append((dl == 0) == (z3.Select(st.heap.DP, rval(v)) == EMPTY_KP))
    return z3.If(is_Str(v), z3.Length(sval(v)), z3.If(isseq, z3.Length(st.heap.lget(rval(v))), dl))


u_dumps_len = None


def str_len(ex, s):
    """len() of a string; the length of json.dumps(x) is its own uninterpreted integer so that size-limit
    obligations are linear arithmetic (a model does not need a 262144-character string)."""
    global u_dumps_len
    b = _B()
    s = simp(s)
    if z3.is_app(s) and s.decl().eq(b.u_dumps):
        if u_dumps_len is None:
            u_dumps_len = z3.Function("u_dumps_len", Val, DVs, DPs, LSs, I)
        n = u_dumps_len(*s.children())
        fact = z3.And(n >= 1, n == z3.Length(s)) if False else (n >= 1)
        ex.assumptions.append(fact)
        return n
    return z3.Length(s)


def py_int(ex, st, ctx, v, node):
    """int(v)"""
    ok = z3.Or(is_Int(v), is_Bool(v), is_Float(v), is_Str(v))
    ex.raise_if(st, ctx, z3.Not(ok), "TypeError", node=node)
    s = sval(v)
    sign = z3.Option(z3.Union(z3.Re(sv("+")), z3.Re(sv("-"))))
    exact = z3.InRe(s, z3.Concat(sign, z3.Plus(DIGITS)))
    # strings outside [+-]?[0-9]+ : CPython also accepts surrounding whitespace, underscores and non-ASCII
    # digits; we over-approximate: may raise ValueError, or return an unknown integer.
    definitely_bad = z3.Or(z3.Length(s) == 0,
                           z3.InRe(s, z3.Concat(z3.Star(z3.AllChar(z3.ReSort(S))),
                                                z3.Union(z3.Range("a", "z"), z3.Range("A", "Z"), z3.Re(sv(":")),
                                                         z3.Re(sv(".")), z3.Re(sv("/")), z3.Re(sv("*"))),
                                                z3.Star(z3.AllChar(z3.ReSort(S))))))
    maybe = fresh("int_raises", B)
    raises = z3.And(is_Str(v), z3.Not(exact), z3.Or(definitely_bad, maybe))
    ex.raise_if(st, ctx, raises, "ValueError", node=node)
    neg = z3.PrefixOf(sv("-"), s)
    digits = z3.If(z3.Or(neg, z3.PrefixOf(sv("+"), s)), z3.SubString(s, 1, z3.Length(s) - 1), s)
    sval_int = z3.If(neg, -z3.StrToInt(digits), z3.StrToInt(digits))
    unknown = fresh("int_unknown", I)
    f = fval(v)
    trunc = z3.If(f >= 0, z3.ToInt(f), -z3.ToInt(-f))
    return z3.If(is_Int(v), ival(v), z3.If(is_Bool(v), z3.If(bval(v), 1, 0),
                 z3.If(is_Float(v), trunc, z3.If(exact, sval_int, unknown))))


def call_builtin(ex, st, ctx, name, args, kwargs, node):
    b = _B()
    if name.startswith("spec."):
        return spec_func(ex, st, ctx, name[5:], args, node)
    if name == "len":
        return VInt(py_len(ex, st, ctx, args[0], node))
    if name == "isinstance":
        return VBool(_isinstance(ex, st, ctx, args[0], args[1], node))
    if name == "int":
        if not args:
            return VInt(z3.IntVal(0))
        return VInt(py_int(ex, st, ctx, args[0], node))
    if name == "str":
        if not args:
            return VStr(sv(""))
        return VStr(b.py_str2(ex, st, args[0]))
    if name == "repr":
        return VStr(z3.Function("u_repr", Val, S)(args[0]))
    if name == "bool":
        return VBool(ex.truth(args[0], st)) if args else VBool(z3.BoolVal(False))
    if name == "float":
        v = args[0]
        ex.raise_if(st, ctx, z3.Not(z3.Or(is_number(v), is_Str(v))), "TypeError", node=node)
        maybe = fresh("float_raises", B)
        ex.raise_if(st, ctx, z3.And(is_Str(v), maybe), "ValueError", node=node)
        return VFloat(z3.If(is_Str(v), z3.Function("u_str_to_float", S, R)(sval(v)), as_real(v)))
    if name in ("min", "max"):
        if len(args) == 1:
            ex.unsupported(st, ctx, name + " of iterable", node)
            return VNone
        acc = args[0]
        for a in args[1:]:
            ex.raise_if(st, ctx, z3.Not(z3.And(is_number(acc), is_number(a))), "TypeError", node=node)
            c = (as_real(a) < as_real(acc)) if name == "min" else (as_real(a) > as_real(acc))
            acc = z3.If(c, a, acc)
        return acc
    if name == "abs":
        v = args[0]
        return z3.If(is_Float(v), VFloat(z3.If(fval(v) < 0, -fval(v), fval(v))),
                     VInt(z3.If(as_int(v) < 0, -as_int(v), as_int(v))))
    if name == "dict":
        if not args and not kwargs:
            return b.new_dict(ex, st)
        if args:
            src = args[0]
            ex.raise_if(st, ctx, z3.Not(z3.And(is_Ref(src), z3.Or(ty(rval(src)) == T_DICT, ty(rval(src)) == T_OBJ))),
                        "TypeError", node=node)
            nr = ex.new_ref(T_DICT)
            st.heap = st.heap.dcopy(nr, rval(src))
            return VRef(nr)
        d = b.new_dict(ex, st)
        for k, v in kwargs.items():
            b.set_item(ex, st, ctx, d, VStr(sv(k)), v, node)
        return d
    if name in ("list", "tuple", "set", "sorted", "reversed"):
        if not args:
            return b.new_list(ex, st, [], {"list": T_LIST, "tuple": T_TUPLE, "set": T_SET}.get(name, T_LIST))
        if name in ("sorted", "reversed", "set"):
            src = args[0]
            out = fresh(name, SeqV)
            if b.static_tag(src) == "ref":
                n = z3.Length(st.heap.lget(rval(src)))
                ex.assumptions.append(z3.Length(out) == n if name != "set" else z3.Length(out) <= n)
            return b.new_list_seq(ex, st, out, T_SET if name == "set" else T_LIST)
        seq = b.iter_to_seq(ex, st, ctx, args[0], node)
        if seq is None or isinstance(seq, tuple):
            ex.unsupported(st, ctx, name + "() of this iterable", node)
            return VNone
        return b.new_list_seq(ex, st, seq, T_LIST if name == "list" else T_TUPLE)
    if name == "range":
        ints = []
        for a in args:
            ex.raise_if(st, ctx, z3.Not(is_intlike(a)), "TypeError", node=node)
            ints.append(as_int(a))
        if len(ints) == 1:
            lo, hi, step = z3.IntVal(0), ints[0], z3.IntVal(1)
        elif len(ints) == 2:
            lo, hi, step = ints[0], ints[1], z3.IntVal(1)
        else:
            lo, hi, step = ints
            ex.raise_if(st, ctx, step == 0, "ValueError", node=node)
        return ex.obj("range", simp(lo), simp(hi), simp(step))
    if name == "enumerate":
        start = kwargs.get("start", args[1] if len(args) > 1 else VInt(z3.IntVal(0)))
        return ex.obj("enumerate", args[0], simp(as_int(start)))
    if name in ("any", "all"):
        o = ex.obj_of(args[0])
        if o is not None and o[0] == "genvals":
            vals, conds = o[1], o[2]
            ts = [z3.And(c, ex.truth(v, st)) if name == "any" else z3.Implies(c, ex.truth(v, st))
                  for v, c in zip(vals, conds)]
            if not ts:
                return VBool(z3.BoolVal(name == "all"))
            return VBool(z3.Or(*ts) if name == "any" else z3.And(*ts))
        if o is not None and o[0] == "gensym":
            seq, idx, val, cond, pc = o[1], o[2], o[3], o[4], o[5]
            i = z3.Const("i!q", I)
            body = z3.substitute(z3.And(cond, truthy(val, st.heap)) if name == "any"
                                 else z3.Implies(cond, truthy(val, st.heap)), (idx, i))
            rng = z3.And(i >= 0, i < z3.Length(seq))
            res = fresh(name, B)
            if name == "any":
                ex.assumptions.append(res == z3.Exists([i], z3.And(rng, body)))
            else:
                ex.assumptions.append(res == z3.ForAll([i], z3.Implies(rng, body)))
            return VBool(res)
        if b.static_tag(args[0]) == "ref":
            seq = simp(st.heap.lget(rval(args[0])))
            ln = simp(z3.Length(seq))
            if z3.is_int_value(ln):
                ts = [ex.truth(simp(seq[i]), st) for i in range(ln.as_long())]
                if not ts:
                    return VBool(z3.BoolVal(name == "all"))
                return VBool(z3.Or(*ts) if name == "any" else z3.And(*ts))
        return VBool(fresh(name, B))
    if name == "type":
        return VOpq(z3.Function("u_type", Val, I)(args[0]))
    if name == "locals":
        return ex.obj("locals", ctx.fid)
    if name == "print":
        return VNone
    if name == "bytes":
        v = args[0]
        ex.raise_if(st, ctx, z3.Not(is_Str(v)), "TypeError", node=node)
        return VOpq(z3.Function("u_encode", S, I)(sval(v)))
    if name == "callable":
        return VBool(z3.Or(is_Fn(args[0]), is_Opq(args[0])))
    if name == "hasattr":
        return VBool(fresh("hasattr", B))
    if name == "id":
        return VInt(fresh("id", I))
    if name == "json.dumps":
        ex.trusted.add("json.dumps: total on finite JSON trees (A2)")
        return VStr(b.u_dumps(args[0], st.heap.DV, st.heap.DP, st.heap.LS))
    if name == "json.loads":
        ex.trusted.add("json.loads: raises only ValueError/TypeError (A2)")
        v = args[0]
        ex.raise_if(st, ctx, z3.Not(z3.Or(is_Str(v), is_Opq(v))), "TypeError", node=node)
        bad = fresh("loads_raises", B)
        ex.raise_if(st, ctx, bad, "JSONDecodeError", node=node)
        res = fresh("loaded", Val)
        ex.assumptions.append(z3.And(z3.Not(is_Unbound(res)), z3.Not(is_Fn(res)), z3.Not(is_Opq(res)),
                                     z3.Implies(is_Ref(res), z3.And(rval(res) < 0,
                                                z3.Or(ty(rval(res)) == T_DICT, ty(rval(res)) == T_LIST)))))
        return res
    if name == "time.time":
        t = fresh("now", R)
        last = st.ghost.get("__clock")
        if last is not None:
            ex.assume(st, t >= last)
        ex.assumptions.append(t >= 0)
        st.ghost["__clock"] = t
        return VFloat(t)
    if name == "uuid.uuid4":
        return VOpq(fresh("uuid", I))
    if name.startswith("operator."):
        opn = name.split(".")[1]
        op = {"eq": ast.Eq(), "ne": ast.NotEq(), "gt": ast.Gt(), "ge": ast.GtE(), "lt": ast.Lt(),
              "le": ast.LtE()}.get(opn)
        if op is None:
            ex.unsupported(st, ctx, name, node)
            return VNone
        return VBool(b.compare(ex, st, ctx, op, args[0], args[1], node))
    if name in ("re.search", "re.match"):
        pat = simp(args[0])
        ex.raise_if(st, ctx, z3.Not(is_Str(args[1])), "TypeError", node=node)
        ps = simp(sval(pat)) if b.static_tag(pat) == "str" else None
        if ps is None or not z3.is_string_value(ps):
            ex.unsupported(st, ctx, "regex with non-constant pattern", node)
            return VNone
        try:
            lang = RX.search_lang(ps.as_string()) if name == "re.search" else RX.match_lang(ps.as_string())
        except RX.Unsupported as e:
            ex.unsupported(st, ctx, "regex: %s" % e, node)
            return VNone
        m = z3.InRe(sval(args[1]), lang)
        # a Match object (truthy, opaque) or None
        return z3.If(m, VOpq(fresh("match", I)), VNone)
    if name == "re.findall":
        pat = simp(args[0])
        ps = simp(sval(pat)) if b.static_tag(pat) == "str" else None
        if ps is not None and z3.is_string_value(ps):
            r = _findall_runs(ex, st, ctx, ps.as_string(), args[1], node)
            if r is not None:
                return r
        ex.unsupported(st, ctx, "re.findall of this pattern", node)
        return VNone
    if name == "re.split":
        ex.trusted.add("re.split: opaque, may raise re.error")
        bad = fresh("resplit_raises", B)
        ex.raise_if(st, ctx, bad, "Exception*", node=node)
        out = fresh("resplit", SeqV)
        ex.assumptions.append(z3.Length(out) >= 1)
        return b.new_list_seq(ex, st, out, T_LIST)
    if name == "fnmatch.fnmatch":
        ex.trusted.add("fnmatch.fnmatch: opaque predicate (A2)")
        ex.raise_if(st, ctx, z3.Not(z3.And(is_Str(args[0]), is_Str(args[1]))), "TypeError", node=node)
        return VBool(z3.Function("u_fnmatch", S, S, B)(sval(args[0]), sval(args[1])))
    if name == "traceback.format_exc":
        return VStr(fresh("tb", S))
    # ---- datetime (assumed contracts, A2): naive datetimes carry u_naive (seconds since the epoch of the
    # calendar fields, a function of the parsed text), timedeltas carry seconds, aware datetimes a timestamp
    if name == "datetime.datetime.strptime":
        ex.trusted.add("datetime.strptime: returns the naive calendar fields NAIVE(text) of a text in the format, "
                       "raises ValueError otherwise (A2)")
        ex.raise_if(st, ctx, z3.Not(z3.And(is_Str(args[0]), is_Str(args[1]))), "TypeError", node=node)
        bad = fresh("strptime_raises", B)
        ex.raise_if(st, ctx, bad, "ValueError", node=node)
        o = fresh("naive_dt", I)
        ex.assume(st, z3.Function("u_naive_of", I, R)(o) == z3.Function("u_naive_text", S, S, R)(sval(args[0]), sval(args[1])))
        return VOpq(o)
    if name == "datetime.timedelta":
        ex.trusted.add("datetime.timedelta(hours=, minutes=, seconds=): total seconds (A2)")
        tot = z3.RealVal(0)
        for k, mult in (("days", 86400), ("hours", 3600), ("minutes", 60), ("seconds", 1)):
            if k in kwargs:
                ex.raise_if(st, ctx, z3.Not(is_number(kwargs[k])), "TypeError", node=node)
                tot = tot + as_real(kwargs[k]) * mult
        if args or any(k not in ("days", "hours", "minutes", "seconds") for k in kwargs):
            ex.unsupported(st, ctx, "timedelta positional / other units", node)
            return VNone
        o = fresh("timedelta", I)
        ex.assume(st, z3.Function("u_td_seconds", I, R)(o) == tot)
        return VOpq(o)
    if name == "datetime.timezone":
        ex.trusted.add("datetime.timezone(delta): fixed offset; ValueError unless strictly between -24h and 24h (A2)")
        ex.raise_if(st, ctx, z3.Not(is_Opq(args[0])), "TypeError", node=node)
        secs = z3.Function("u_td_seconds", I, R)(oid(args[0]))
        ex.raise_if(st, ctx, z3.Not(z3.And(secs > -86400, secs < 86400)), "ValueError", node=node)
        o = fresh("tz", I)
        ex.assume(st, z3.Function("u_tz_offset", I, R)(o) == secs)
        return VOpq(o)
    if name in ("super", "open", "iter", "next", "zip", "sum", "map", "filter", "getattr", "round"):
        ex.unsupported(st, ctx, "builtin " + name, node)
        return VNone
    # any other module-level external: pure, total, opaque
    ex.trusted.add("external:" + name)
    if name.endswith(".isoformat") or name.endswith("format_exc"):
        return VStr(fresh("extstr", S))
    return VOpq(fresh("ext_" + name.replace(".", "_"), I))


def _findall_runs(ex, st, ctx, pattern, subject, node):
    """re.findall(r"[^...]+", s): maximal runs outside a character set (DESIGN 2.9).  Exact rule:
    concat of the runs with the separators removed; we expose the first 4 runs exactly and an unknown tail."""
    b = _B()
    try:
        import re._parser as sp
    except ImportError:
        import sre_parse as sp
    tree = list(sp.parse(pattern))
    if len(tree) != 1 or str(tree[0][0]) != "MAX_REPEAT":
        return None
    lo, hi, sub = tree[0][1]
    sub = list(sub)
    if lo != 1 or len(sub) != 1 or str(sub[0][0]) != "IN":
        return None
    items = list(sub[0][1])
    if str(items[0][0]) != "NEGATE":
        return None
    seps = []
    for op, av in items[1:]:
        if str(op) != "LITERAL":
            return None
        seps.append(chr(av))
    ex.raise_if(st, ctx, z3.Not(is_Str(subject)), "TypeError", node=node)
    s = sval(subject)
    sc = simp(s)
    if z3.is_string_value(sc):
        import re
        parts = re.findall(pattern, sc.as_string())
        return b.new_list(ex, st, [VStr(sv(p)) for p in parts], T_LIST)
    sepre = z3.Union(*[z3.Re(sv(c)) for c in seps]) if len(seps) > 1 else z3.Re(sv(seps[0]))
    run = z3.Plus(z3.Diff(z3.AllChar(z3.ReSort(S)), sepre))
    gap = z3.Star(sepre)
    # s == g0 r0 g1 r1 ... with unknown count: expose K runs
    K = 4
    gs = [fresh("gap", S) for _ in range(K + 1)]
    rs = [fresh("run", S) for _ in range(K)]
    n = fresh("nruns", I)
    tail = fresh("runtail", SeqV)
    facts = [n >= 0]
    acc = gs[0]
    facts.append(z3.InRe(gs[0], gap))
    seq = EMPTY_SEQ
    for k in range(K):
        facts.append(z3.Implies(n > k, z3.And(z3.InRe(rs[k], run), z3.InRe(gs[k + 1], gap if k < K - 1 else gap),
                                              z3.Implies(n > k + 1, z3.Length(gs[k + 1]) > 0) if k < K - 1 else True)))
        acc_k = z3.Concat(acc, rs[k], gs[k + 1])
        facts.append(z3.Implies(n == k + 1, s == acc_k))
        acc = acc_k
    facts.append(z3.Implies(n == 0, s == gs[0]))
    ex.assumptions.append(z3.And(*facts))
    for k in reversed(range(K)):
        seq = z3.If(n > k, z3.Concat(z3.Unit(VStr(rs[k])), seq if k < K - 1 else z3.If(n > K, tail, EMPTY_SEQ)),
                    EMPTY_SEQ)
    fa = fresh("findall", SeqV)
    qi = z3.Const("q!fa", I)
    ex.assumptions.append(fa == seq)
    # findall yields strings (A2 for `re`): stated on the result itself, so that it is usable without the run structure
    ex.assumptions.append(z3.ForAll([qi], z3.Implies(z3.And(qi >= 0, qi < z3.Length(fa)), is_Str(fa[qi]))))
    return b.new_list_seq(ex, st, fa, T_LIST)


def call_class(ex, st, ctx, name, args, kwargs, node):
    b = _B()
    if name in b.TYPE_NAMES:
        return call_builtin(ex, st, ctx, name, args, kwargs, node)
    if name in EXC_BASE:
        msg = args[0] if args else VStr(sv(""))
        return ex.new_exc(st, name, msg)
    # a repo class: instantiate via __init__ if we can find it
    mod = ctx.unit.module if ctx.unit is not None else None
    u = None
    if mod is not None:
        for m in [mod] + [ex.repo.module_by_dotted(x) for x in mod.imports.get("*", [])]:
            if m is not None and (name + ".__init__") in m.units:
                u = m.units[name + ".__init__"]
                break
    r = ex.new_ref(T_OBJ)
    st.heap = st.heap.dnew(r)
    if u is not None:
        ex.call_unit(u, None, [VRef(r)] + list(args), kwargs, st, ctx, node)
    else:
        ex.trusted.add("class-ctor:" + name)
    return VRef(r)


# --------------------------------------------------------------------------
# spec mode
# --------------------------------------------------------------------------

def spec_form(ex, st, ctx, e):
    """Special forms whose arguments are not evaluated eagerly."""
    b = _B()
    f = e.func.id
    if f == "old":
        pre = ctx.pre
        if pre is None:
            raise OutOfSubset("old() outside a postcondition", e)
        # old(e) is a function of the (immutable) pre-state and of the spec frame's variables: memoised
        fr_now = st.frames.get(ctx.fid, {})
        names = sorted(set(n.id for n in ast.walk(e.args[0]) if isinstance(n, ast.Name)))
        try:
            key = (ast.dump(e.args[0]), id(pre), ctx.fid,
                   tuple((n, fr_now[n].get_id() if hasattr(fr_now.get(n), "get_id") else None) for n in names))
        except Exception:
            key = None
        memo = ex.__dict__.setdefault("_old_memo", {})
        if key is not None and key in memo:
            return memo[key][0]
        p2 = pre.fork()
        # parameters/locals of the spec frame are visible in the pre-state too
        p2.frames.setdefault(ctx.fid, {})
        for k, v in st.frames.get(ctx.fid, {}).items():
            p2.frames[ctx.fid].setdefault(k, v)
        out = ex.eval(e.args[0], p2, ctx.derive(pre=None))
        if key is not None:
            memo[key] = (out, pre)        # keep `pre` alive so that its id is not reused
        return out
    if f in ("forall", "exists"):
        lam = e.args[0]
        names = [a.arg for a in lam.args.args]
        vs = [z3.Const("q!%s!%d" % (n, e.lineno * 1000 + e.col_offset), I) for n in names]
        fr = st.frames.setdefault(ctx.fid, {})
        saved = {n: fr.get(n) for n in names}
        for n, v in zip(names, vs):
            fr[n] = VInt(v)
        body = ex.truth(ex.eval(lam.body, st, ctx), st)
        for n in names:
            if saved[n] is None:
                fr.pop(n, None)
            else:
                fr[n] = saved[n]
        q = z3.ForAll(vs, body) if f == "forall" else z3.Exists(vs, body)
        return VBool(q)
    if f == "at_snapshot":
        # at_snapshot('ghostname', expr): evaluate expr in the heap recorded in a ghost snapshot
        gname = e.args[0].value
        h = st.ghost[gname]
        s2 = st.fork()
        s2.heap = h
        return ex.eval(e.args[1], s2, ctx)
    if f == "ite":
        c = ex.truth(ex.eval(e.args[0], st, ctx), st)
        return z3.If(c, ex.eval(e.args[1], st, ctx), ex.eval(e.args[2], st, ctx))
    if f == "implies":
        a = ex.truth(ex.eval(e.args[0], st, ctx), st)
        c = ex.truth(ex.eval(e.args[1], st, ctx), st)
        return VBool(z3.Implies(a, c))
    return NotImplemented


def spec_func(ex, st, ctx, name, args, node):
    b = _B()
    T = lambda v: ex.truth(v, st)
    if name == "implies":
        return VBool(z3.Implies(T(args[0]), T(args[1])))
    if name == "iff":
        return VBool(T(args[0]) == T(args[1]))
    if name == "isdict":
        return VBool(b.is_dict(args[0]))
    if name == "islist":
        return VBool(b.is_list(args[0]))
    if name == "istuple":
        return VBool(z3.And(is_Ref(args[0]), ty(rval(args[0])) == T_TUPLE))
    if name == "isobj":
        return VBool(z3.And(is_Ref(args[0]), ty(rval(args[0])) == T_OBJ))
    if name == "isstr":
        return VBool(is_Str(args[0]))
    if name == "isint":
        return VBool(is_Int(args[0]))
    if name == "isbool":
        return VBool(is_Bool(args[0]))
    if name == "isfloat":
        return VBool(is_Float(args[0]))
    if name == "NAIVE":
        # seconds denoted by the calendar fields of a "%Y-%m-%dT%H:%M:%S.%f" text (what strptime parses, A2)
        return VFloat(z3.Function("u_naive_text", S, S, R)(sval(args[0]), sv("%Y-%m-%dT%H:%M:%S.%f")))
    if name == "istrue":
        # Python truthiness, taken in the state the expression is evaluated in (inside old(): the entry heap)
        return VBool(ex.truth(args[0], st))
    if name == "isnum":
        return VBool(z3.Or(is_Int(args[0]), is_Float(args[0])))
    if name == "isnone":
        return VBool(is_None(args[0]))
    if name == "iscallable":
        return VBool(z3.Or(is_Fn(args[0]), is_Opq(args[0])))
    if name == "is_exc":
        return VBool(z3.And(is_Ref(args[0]), ty(rval(args[0])) == T_EXC))
    if name == "isjson":
        v = args[0]
        return VBool(z3.And(z3.Not(is_Fn(v)), z3.Not(is_Opq(v)), z3.Not(is_Unbound(v)),
                            z3.Implies(is_Ref(v), z3.Or(ty(rval(v)) == T_DICT, ty(rval(v)) == T_LIST))))
    if name == "haskey":
        return VBool(b.hhas(ex, st, rval(args[0]), b.dkey2(ex, st, args[1])))
    if name == "keys_exactly":
        d = args[0]
        want = EMPTY_KP
        for k in args[1:]:
            want = z3.Store(want, b.dkey(k), z3.BoolVal(True))
        return VBool(z3.Select(st.heap.DP, rval(d)) == want)
    if name == "keys_subset":
        d = args[0]
        k = z3.Const("k!ks", S)
        allowed = z3.Or(*[k == b.dkey(a) for a in args[1:]])
        return VBool(z3.ForAll([k], z3.Implies(st.heap.dhas(rval(d), k), allowed)))
    if name in ("re_search", "re_full"):
        pat = simp(sval(args[0])).as_string()
        lang = RX.search_lang(pat) if name == "re_search" else RX.fullmatch_lang(pat)
        return VBool(z3.InRe(sval(args[1]), lang))
    if name == "same":
        return VBool(args[0] == args[1])
    if name == "content_eq":
        # one-level structural equality of two containers (dict contents+presence, or list contents)
        a, c = args[0], args[1]
        h = st.heap
        return VBool(z3.And(is_Ref(a), is_Ref(c),
                            z3.Select(h.DV, rval(a)) == z3.Select(h.DV, rval(c)),
                            z3.Select(h.DP, rval(a)) == z3.Select(h.DP, rval(c)),
                            z3.Select(h.LS, rval(a)) == z3.Select(h.LS, rval(c))))
    if name == "unchanged":
        pre = ctx.pre
        r = rval(args[0])
        return VBool(z3.And(z3.Select(st.heap.DV, r) == z3.Select(pre.heap.DV, r),
                            z3.Select(st.heap.DP, r) == z3.Select(pre.heap.DP, r),
                            z3.Select(st.heap.LS, r) == z3.Select(pre.heap.LS, r)))
    if name == "unchanged_except":
        # the container is as in the pre-state except (possibly) at one dict key / list index
        pre = ctx.pre
        r = rval(args[0])
        k = args[1]
        dvn, dvo = z3.Select(st.heap.DV, r), z3.Select(pre.heap.DV, r)
        dpn, dpo = z3.Select(st.heap.DP, r), z3.Select(pre.heap.DP, r)
        lsn, lso = z3.Select(st.heap.LS, r), z3.Select(pre.heap.LS, r)
        ks = b.dkey(k)
        qi = z3.Const("q!ue", I)
        idx = as_int(k)
        idx = z3.If(idx < 0, idx + z3.Length(lso), idx)
        return VBool(z3.And(dvn == z3.Store(dvo, ks, z3.Select(dvn, ks)), dpn == z3.Store(dpo, ks, z3.Select(dpn, ks)),
                            z3.Or(lsn == lso,
                                  z3.And(z3.Length(lsn) == z3.Length(lso),
                                         z3.ForAll([qi], z3.Implies(z3.And(qi >= 0, qi < z3.Length(lso), qi != idx),
                                                                    lsn[qi] == lso[qi]))))))
    if name == "prefix_unchanged":
        # the first n elements of this list object are what they were in the pre-state
        pre = ctx.pre
        r = rval(args[0])
        n = as_int(args[1])
        return VBool(z3.Extract(z3.Select(st.heap.LS, r), 0, n) == z3.Extract(z3.Select(pre.heap.LS, r), 0, n))
    if name == "isreversed":
        # list a (in this state) is list b as it was at entry, reversed; same_contents(a, b): equal sequences
        pre = ctx.pre
        sa = z3.Select(st.heap.LS, rval(args[0]))
        sb = z3.Select(pre.heap.LS, rval(args[1]))
        return VBool(u_rev(sb) == sa)
    if name == "same_contents":
        pre = ctx.pre
        return VBool(z3.Select(st.heap.LS, rval(args[0])) == z3.Select(pre.heap.LS, rval(args[1])))
    if name == "isbytes":
        return VBool(is_Opq(args[0]))          # bytes objects are opaque externals with a length
    if name == "isemptydict":
        v = args[0]
        return VBool(z3.And(is_Ref(v), ty(rval(v)) == T_DICT, z3.Select(st.heap.DP, rval(v)) == EMPTY_KP))
    if name == "isfalse":
        v = args[0]
        return VBool(z3.And(is_Bool(v), z3.Not(bval(v))))
    if name == "heap_unchanged":
        return VBool(st.heap.eq(ctx.pre.heap))
    if name == "dumps":
        return VStr(b.u_dumps(args[0], st.heap.DV, st.heap.DP, st.heap.LS))
    if name == "ts":
        return VFloat(b.u_timestamp(oid(args[0])))
    if name == "upow":
        return VFloat(u_pow(as_real(args[0]), as_real(args[1])))
    if name in ("to_real", "real"):
        return VFloat(as_real(args[0]))
    if name == "trunc":
        f = as_real(args[0])
        return VInt(z3.If(f >= 0, z3.ToInt(f), -z3.ToInt(-f)))
    if name == "seqlen":
        return VInt(z3.Length(st.heap.lget(rval(args[0]))))
    if name == "strlen":
        return VInt(str_len(ex, sval(args[0])))
    if name == "is_decimal_str":
        return VBool(z3.And(is_Str(args[0]), is_decimal(sval(args[0]))))
    if name == "str_to_int":
        return VInt(z3.StrToInt(sval(args[0])))
    if name == "int_to_str":
        return VStr(int_to_str(as_int(args[0])))
    if name == "lower_ascii":
        return VStr(u_lower(sval(args[0])))
    if name == "list_eq":
        # list_eq(lst, a, b, c): contents are exactly these values
        seq = st.heap.lget(rval(args[0]))
        want = EMPTY_SEQ
        for a in args[1:]:
            want = z3.Concat(want, z3.Unit(a))
        return VBool(seq == simp(want))
    if name in ("AP", "RP", "EPT"):
        # the path functions as uninterpreted symbols (DESIGN C01): only calling the real functions with the
        # right arguments in the right order can establish an equation between them
        f = z3.Function("u_" + name, Val, Val, Val, Val)
        return f(args[0], args[1], args[2])
    if name == "INSTANT":
        # the instant (epoch seconds) an RFC 3339 text denotes; C08 proves the real parser computes it
        v = args[0]
        return VFloat(z3.Function("u_instant", Val, R)(v))
    if name == "RFC3339_OK":
        return VBool(z3.Function("u_rfc3339_ok", Val, B)(args[0]))
    if name == "NOW":
        return VFloat(st.ghost["__clock"]) if "__clock" in st.ghost else VFloat(fresh("noclock", R))
    if name == "rmax":
        a, c = as_real(args[0]), as_real(args[1])
        return VFloat(z3.If(a >= c, a, c))
    if name == "rmin":
        a, c = as_real(args[0]), as_real(args[1])
        return VFloat(z3.If(a <= c, a, c))
    if name == "fresh_ref":
        return VBool(z3.And(is_Ref(args[0]), rval(args[0]) > 0))
    raise OutOfSubset("spec function " + name, node)
