"""
pyvc.bi_calls -- builtin functions, methods, iteration, comprehensions, spec forms.
"""
import ast
import z3

from .vals import *      # noqa
from .state import *     # noqa
from . import regex as RX
from . import strnorm as SN


def _B():
    from . import builtins as b
    return b


SPEC_FUNCS = {"implies", "iff", "old", "forall", "exists", "isdict", "islist", "isstr", "isint", "isnone",
              "isbool", "isfloat", "keys_exactly", "re_search", "re_full", "same", "unchanged", "dumps", "ts",
              "upow", "fresh_ref", "seq_of", "seqlen", "at_snapshot", "heap_unchanged", "ite", "isjson",
              "isobj", "isnum", "to_real", "is_decimal_str", "str_to_int", "int_to_str", "haskey", "content_eq",
              "istuple", "iscallable", "seq_eq_upto", "strlen", "lower_ascii", "keys_subset", "real",
              "list_eq", "is_exc", "no_new_keys", "trunc", "AP", "RP", "EPT", "INSTANT", "NOW", "RFC3339_OK", "rmax", "rmin",
              "istrue", "NAIVE", "unchanged_except", "isemptydict", "isfalse",
              "prefix_unchanged", "isbytes", "isreversed", "same_contents"}

BUILTIN_FUNCS = {
    "len", "isinstance", "int", "str", "float", "bool", "min", "max", "abs", "dict", "list", "tuple", "set",
    "range", "enumerate", "any", "all", "sorted", "type", "locals", "print", "bytes", "zip", "sum", "repr",
    "hasattr", "getattr", "callable", "iter", "next", "super", "open", "id", "round", "reversed", "map", "filter",
    "json.dumps", "json.loads", "json.dump", "json.load", "time.time", "time.sleep", "uuid.uuid4",
    "operator.eq", "operator.ne", "operator.gt", "operator.ge", "operator.lt", "operator.le",
    "re.search", "re.match", "re.findall", "re.split", "re.sub", "re.compile", "fnmatch.fnmatch",
    "traceback.format_exc", "datetime.datetime", "datetime.timezone", "datetime.timedelta",
}


class IterSeq(object):
    """An iterable seen as: a length term and a function idx -> Val."""

    def __init__(self, length, at, seq=None):
        self.length = length
        self.at = at
        self.seq = seq


# the executor's loop machinery works on z3 Seq terms; ranges / enumerate are materialised as Seq terms with
# defining axioms (quantified, pattern = nth) so that the same code path serves all iterables.

def iter_to_seq(ex, st, ctx, it, node):
    b = _B()
    o = ex.obj_of(it)
    if o is not None:
        if o[0] == "range":
            lo, hi, step = o[1], o[2], o[3]
            return _range_seq(ex, lo, hi, step)
        if o[0] == "enumerate":
            base = iter_to_seq(ex, st, ctx, o[1], node)
            if base is None:
                return None
            start = o[2]
            ln = simp(z3.Length(base))
            if z3.is_int_value(ln) and ln.as_long() <= 64:
                items = []
                for i in range(ln.as_long()):
                    items.append(b.new_list(ex, st, [VInt(simp(start + i)), simp(base[i])], T_TUPLE))
                return z3.Concat(*[z3.Unit(x) for x in items]) if len(items) > 1 else (
                    z3.Unit(items[0]) if items else EMPTY_SEQ)
            return ("enumerate", base, start)
        if o[0] == "dictitems":
            if o[2] == "items":
                keys = _dict_keys(ex, st, o[1])
                return ("items", keys, o[1])
            return _dict_iter(ex, st, ctx, o[1], o[2], node)
        if o[0] == "genexp":
            ex.unsupported(st, ctx, "iteration over generator object", node)
            return None
    tag = b.static_tag(it)
    dk = b.dyn_kind(ex, st, it)
    if dk in ("dict", "list", "tuple", "set"):
        tag = "ref"
    if tag == "ref":
        kind = {"dict": T_DICT, "list": T_LIST, "tuple": T_TUPLE, "set": T_SET}.get(dk, b.ref_kind(ex, it))
        if kind in (T_LIST, T_TUPLE, T_SET):
            return simp(st.heap.lget(rval(it)))
        if kind == T_DICT:
            return _dict_iter(ex, st, ctx, it, "keys", node)
    if tag == "str":
        ex.unsupported(st, ctx, "iteration over a string", node)
        return None
    ex.raise_if(st, ctx, z3.Not(z3.Or(is_Str(it), is_Ref(it))), "TypeError", node=node)
    if st.dead:
        return None
    isd = b.is_dict(it)
    if is_false(z3.And(st.pc, isd)) or True:
        # treat as list/tuple; dict iteration of an unknown value is rare in this code base
        s2 = st.fork()
        s2.guard(z3.Not(b.is_seqref(it)))
        if not s2.dead:
            # could be dict / str: not modelled -> must be unreachable
            ex.unsupported(s2, ctx, "iteration over non-list value", node)
        st.guard(b.is_seqref(it))
        return st.heap.lget(rval(it))


def _range_seq(ex, lo, hi, step):
    n = simp(z3.If(step > 0, z3.If(hi > lo, (hi - lo + step - 1) / step, 0),
                   z3.If(lo > hi, (lo - hi + (-step) - 1) / (-step), 0)))
    if z3.is_int_value(n) and n.as_long() <= 64 and z3.is_int_value(simp(lo)) and z3.is_int_value(simp(step)):
        vals = [VInt(z3.IntVal(simp(lo).as_long() + k * simp(step).as_long())) for k in range(n.as_long())]
        return z3.Concat(*[z3.Unit(v) for v in vals]) if len(vals) > 1 else (z3.Unit(vals[0]) if vals else EMPTY_SEQ)
    seq = fresh("range", SeqV)
    i = z3.Const("i!rng", I)
    ex.assumptions.append(z3.Length(seq) == n)
    ex.assumptions.append(z3.ForAll([i], z3.Implies(z3.And(i >= 0, i < z3.Length(seq)),
                                                    seq[i] == VInt(lo + i * step)), patterns=[seq[i]]))
    return seq


def _dict_keys(ex, st, d):
    b = _B()
    r = rval(d)
    keys = fresh("keys", z3.SeqSort(S))
    i = z3.Const("i!dk", I)
    dp = b.heap_select(ex, st, st.heap.DP, r)
    ex.assumptions.append(z3.ForAll([i], z3.Implies(z3.And(i >= 0, i < z3.Length(keys)),
                                                    z3.Select(dp, keys[i])), patterns=[keys[i]]))
    ex.assumptions.append(z3.Implies(dp == EMPTY_KP, z3.Length(keys) == 0))
    return keys


def _dict_iter(ex, st, ctx, d, what, node):
    """keys / values / items of a dict in (unknown) insertion order: a fresh key sequence of distinct,
    present keys covering the dict (coverage and distinctness are stated only through length axioms)."""
    b = _B()
    r = rval(d)
    keys = fresh("keys", z3.SeqSort(S))
    i = z3.Const("i!dk", I)
    ex.assumptions.append(z3.ForAll([i], z3.Implies(z3.And(i >= 0, i < z3.Length(keys)),
                                                    st.heap.dhas(r, keys[i])), patterns=[keys[i]]))
    ex.assumptions.append(z3.Implies(st.heap.dempty(r), z3.Length(keys) == 0))
    seq = fresh("dseq", SeqV)
    ex.assumptions.append(z3.Length(seq) == z3.Length(keys))
    if what == "keys":
        ex.assumptions.append(z3.ForAll([i], z3.Implies(z3.And(i >= 0, i < z3.Length(seq)),
                                                        seq[i] == VStr(keys[i])), patterns=[seq[i]]))
    elif what == "values":
        ex.assumptions.append(z3.ForAll([i], z3.Implies(z3.And(i >= 0, i < z3.Length(seq)),
                                                        seq[i] == st.heap.dget(r, keys[i])), patterns=[seq[i]]))
    else:
        # items: tuples (k, v): each element is a reference to a 2-tuple
        ex.assumptions.append(z3.ForAll([i], z3.Implies(
            z3.And(i >= 0, i < z3.Length(seq)),
            z3.And(is_Ref(seq[i]), ty(rval(seq[i])) == T_TUPLE, rval(seq[i]) < 0,
                   st.heap.lget(rval(seq[i])) == z3.Concat(z3.Unit(VStr(keys[i])),
                                                            z3.Unit(st.heap.dget(r, keys[i]))))),
            patterns=[seq[i]]))
    return seq


def comprehension(ex, st, ctx, e, kind):
    b = _B()
    if len(e.generators) != 1:
        ex.unsupported(st, ctx, "nested comprehension", e)
        return VNone
    g = e.generators[0]
    it = ex.eval(g.iter, st, ctx)
    if st.dead:
        return VNone
    seq = iter_to_seq(ex, st, ctx, it, e)
    if seq is None or st.dead:
        return VNone
    is_tup = isinstance(seq, tuple)
    ln = simp(ex.it_len(seq))
    fid = ex.new_frame(ctx.unit, ctx.fid)
    st.frames[fid] = {}
    cctx = ctx.derive(fid=fid)
    cu = _CompUnit(ctx.unit, g.target)
    ex.frame_unit[fid] = cu
    cctx.unit = cu
    if z3.is_int_value(ln) and ln.as_long() <= 32:
        vals = []
        conds = []
        for i in range(ln.as_long()):
            if is_tup:
                ex.it_assign(g.target, seq, z3.IntVal(i), st, cctx)
            else:
                ex.assign_target(g.target, simp(seq[i]), st, cctx)
            c = z3.BoolVal(True)
            for cond in g.ifs:
                c = z3.And(c, ex.truth(ex.eval(cond, st, cctx), st))
            c = simp(c)
            if kind == "dict":
                vals.append((ex.eval(e.key, st, cctx), ex.eval(e.value, st, cctx)))
            else:
                vals.append(ex.eval(e.elt, st, cctx))
            conds.append(c)
        st.frames.pop(fid, None)
        if kind == "gen":
            return ex.obj("genvals", tuple(vals), tuple(conds))
        if kind == "dict":
            d = b.new_dict(ex, st)
            for (k, v), c in zip(vals, conds):
                if is_true(c):
                    b.set_item(ex, st, ctx, d, k, v, e)
                else:
                    h2 = st.heap.dset(rval(d), simp(b.dkey(k)), v)
                    st.heap = Heap.ite(c, h2, st.heap)
            return d
        seqo = EMPTY_SEQ
        for v, c in zip(vals, conds):
            seqo = z3.Concat(seqo, z3.If(c, z3.Unit(v), EMPTY_SEQ)) if not is_true(c) else z3.Concat(seqo, z3.Unit(v))
        return b.new_list_seq(ex, st, simp(seqo), T_LIST if kind == "list" else T_SET)
    # symbolic length: elementwise comprehension without filter -> axiomatised map
    idx = fresh("ci", I)
    body_st = st.fork()
    if is_tup:
        ex.it_assign(g.target, seq, idx, body_st, cctx)
    else:
        ex.assign_target(g.target, seq[idx], body_st, cctx)
    pre_heap = body_st.heap
    raises = []
    bctx = cctx.derive(raises=raises)
    conds = z3.BoolVal(True)
    for cond in g.ifs:
        conds = z3.And(conds, ex.truth(ex.eval(cond, body_st, bctx), body_st))
    if kind == "dict":
        kv = ex.eval(e.key, body_st, bctx)
        val = ex.eval(e.value, body_st, bctx)
    else:
        val = ex.eval(e.elt, body_st, bctx)
    st.frames.pop(fid, None)
    # exceptional paths inside the element expression: under "some idx in range"
    for rs, exc in raises:
        rs.guard(z3.And(idx >= 0, idx < ex.it_len(seq)))
        ctx.raises.append((rs, exc))
    pure = body_st.heap is pre_heap or (body_st.heap.DV.eq(pre_heap.DV) and body_st.heap.DP.eq(pre_heap.DP)
                                        and body_st.heap.LS.eq(pre_heap.LS))
    if kind == "gen" and not is_tup:
        return ex.obj("gensym", seq, idx, val, simp(conds), body_st.pc)
    if kind == "gen":
        ex.unsupported(st, ctx, "generator over symbolic items/enumerate", e)
        return VNone
    if kind == "list" and not g.ifs and pure and not is_tup:
        out = fresh("comp", SeqV)
        ex.assumptions.append(z3.Length(out) == z3.Length(seq))
        body = z3.substitute(val, (idx, z3.Const("i!cmp", I)))
        i = z3.Const("i!cmp", I)
        ex.assumptions.append(z3.ForAll([i], z3.Implies(z3.And(i >= 0, i < z3.Length(out)), out[i] == body),
                                        patterns=[out[i]]))
        return b.new_list_seq(ex, st, out, T_LIST)
    # anything else: fresh result of the right kind, contents unknown
    if kind == "dict":
        r = ex.new_ref(T_DICT)
        st.heap = Heap(z3.Store(st.heap.DV, r, fresh("cdv", KV)), z3.Store(st.heap.DP, r, fresh("cdp", KP)),
                       st.heap.LS)
        return VRef(r)
    out = fresh("comp", SeqV)
    ex.assumptions.append(z3.Length(out) <= ex.it_len(seq))
    return b.new_list_seq(ex, st, out, T_LIST if kind == "list" else T_SET)


class _CompUnit(object):
    """Comprehension scope: its target names are local to it."""

    def __init__(self, unit, target):
        self.node = ast.Lambda(args=ast.arguments(posonlyargs=[], args=[ast.arg(arg=n) for n in _names(target)],
                                                  kwonlyargs=[], kw_defaults=[], defaults=[]),
                               body=ast.Constant(value=None))
        self.module = unit.module if unit is not None else None
        self.parent = unit
        self.cls = getattr(unit, "cls", None)
        self.nested = {}
        self.key = getattr(unit, "key", "") + ".<comp>"
        self.is_lemma = getattr(unit, "is_lemma", False)

    def params(self):
        return []


def _names(t):
    if isinstance(t, ast.Name):
        return [t.id]
    out = []
    for e in getattr(t, "elts", []):
        out += _names(e)
    return out


# --------------------------------------------------------------------------
# methods
# --------------------------------------------------------------------------
STR_METHODS = {"startswith", "endswith", "split", "rsplit", "rpartition", "partition", "strip", "lstrip", "rstrip",
               "lower", "upper", "replace", "format", "join", "find", "index", "count", "capitalize", "encode",
               "isdigit", "title"}
DICT_METHODS = {"get", "items", "keys", "values", "update", "setdefault", "copy", "pop"}
LIST_METHODS = {"append", "extend", "insert", "pop", "index", "copy", "remove", "sort", "reverse", "count"}


def call_method(ex, st, ctx, recv, name, args, kwargs, node):
    b = _B()
    return b.ref_split(ex, st, ctx, recv, lambda x, o: _call_method(ex, x, ctx, o, name, args, kwargs, node))


def _call_method(ex, st, ctx, recv, name, args, kwargs, node):
    b = _B()
    tag = b.static_tag(recv)
    kind = b.ref_kind(ex, recv) if tag == "ref" else None
    dk = b.dyn_kind(ex, st, recv)
    if dk in ("dict", "obj", "list", "tuple", "set"):
        tag = "ref"
        kind = {"dict": T_DICT, "obj": T_OBJ, "list": T_LIST, "tuple": T_TUPLE, "set": T_SET}[dk]
    elif dk is not None:
        tag = dk
    if tag == "opq":
        return _opaque_method(ex, st, ctx, recv, name, args, node, kwargs)
    if tag == "str" or (tag is None and name in STR_METHODS and name not in DICT_METHODS | LIST_METHODS):
        if name not in STR_METHODS:
            ex.raise_if(st, ctx, z3.BoolVal(True), "AttributeError", node=node)
            return VNone
        ex.raise_if(st, ctx, z3.Not(is_Str(recv)), "AttributeError", node=node)
        if st.dead:
            return VNone
        return str_method(ex, st, ctx, sval(recv), name, args, kwargs, node)
    if tag in ("none", "bool", "int", "float"):
        ex.raise_if(st, ctx, z3.BoolVal(True), "AttributeError", node=node)
        return VNone
    if name in ("get", "items", "keys", "values", "update", "setdefault"):
        if kind not in (T_DICT, T_OBJ):
            ex.raise_if(st, ctx, z3.Not(b.is_dict(recv)), "AttributeError", node=node)
        if st.dead:
            return VNone
        return dict_method(ex, st, ctx, recv, name, args, kwargs, node)
    if name in ("append", "extend", "insert", "remove", "sort", "reverse"):
        if kind != T_LIST:
            ex.raise_if(st, ctx, z3.Not(b.is_list(recv)), "AttributeError", node=node)
        if st.dead:
            return VNone
        return list_method(ex, st, ctx, recv, name, args, kwargs, node)
    if name in ("pop", "copy", "index", "count"):
        if kind in (T_DICT, T_OBJ):
            return dict_method(ex, st, ctx, recv, name, args, kwargs, node)
        if kind == T_LIST:
            return list_method(ex, st, ctx, recv, name, args, kwargs, node)
        isd, isl = b.is_dict(recv), b.is_list(recv)
        ex.raise_if(st, ctx, z3.Not(z3.Or(isd, isl, is_Str(recv))), "AttributeError", node=node)
        if st.dead:
            return VNone
        if name in ("index", "count"):
            return ex.branch_val(st, is_Str(recv),
                                 lambda x: str_method(ex, x, ctx, sval(recv), name, args, kwargs, node),
                                 lambda x: list_method(ex, x, ctx, recv, name, args, kwargs, node))
        ex.raise_if(st, ctx, is_Str(recv), "AttributeError", node=node)
        return ex.branch_val(st, isd, lambda x: dict_method(ex, x, ctx, recv, name, args, kwargs, node),
                             lambda x: list_method(ex, x, ctx, recv, name, args, kwargs, node))
    if tag is None and not is_false(z3.And(st.pc, is_Opq(recv))):
        # unknown value that may be an opaque external object
        return ex.branch_val(st, is_Opq(recv), lambda x: _opaque_method(ex, x, ctx, recv, name, args, node, kwargs),
                             lambda x: _unknown_method(ex, x, ctx, recv, name, node))
    return _unknown_method(ex, st, ctx, recv, name, node)


def _unknown_method(ex, st, ctx, recv, name, node):
    ex.unsupported(st, ctx, "method ." + name + " on non-builtin value", node)
    return VNone


def _opaque_method(ex, st, ctx, recv, name, args, node, kwargs=None):
    """Methods of external objects (datetime, spans, futures...): pure, total, opaque (assumption A2)."""
    ex.trusted.add("opaque-method:." + name)
    if name == "timestamp":
        b = _B()
        return VFloat(b.u_timestamp(oid(recv)))
    if name == "replace" and set(kwargs or {}) == {"tzinfo"}:
        # naive.replace(tzinfo=tz): the aware datetime whose instant is NAIVE - offset (A2)
        b = _B()
        o = fresh("aware_dt", I)
        tz = kwargs["tzinfo"]
        ex.assume(st, z3.Implies(is_Opq(tz), b.u_timestamp(o) == z3.Function("u_naive_of", I, R)(oid(recv))
                                 - z3.Function("u_tz_offset", I, R)(oid(tz))))
        return VOpq(o)
    if name in ("isoformat", "decode", "hexdigest", "format_exc"):
        return VStr(fresh("opqstr_" + name, S))
    return VOpq(fresh("opq_" + name, I))


def str_method(ex, st, ctx, s, name, args, kwargs, node):
    b = _B()

    def sarg(i):
        a = args[i]
        ex.raise_if(st, ctx, z3.Not(is_Str(a)), "TypeError", node=node)
        return sval(a)
    if name == "startswith":
        return VBool(z3.PrefixOf(sarg(0), s))
    if name == "endswith":
        return VBool(z3.SuffixOf(sarg(0), s))
    if name == "strip" and not args:
        return VStr(_strip_ws(ex, s))
    if name in ("strip", "lstrip", "rstrip"):
        chars = simp(sarg(0)) if args else None
        return VStr(_strip_chars(ex, s, chars, name))
    if name == "lower":
        return VStr(b.u_lower(s) if hasattr(b, "u_lower") else u_lower(s))
    if name == "replace":
        return VStr(_replace_all(ex, s, sarg(0), sarg(1)))
    if name == "split":
        sep = sarg(0) if args else None
        maxsplit = None
        if len(args) > 1:
            m = simp(as_int(args[1]))
            if not z3.is_int_value(m):
                ex.unsupported(st, ctx, "split with symbolic maxsplit", node)
                return VNone
            maxsplit = m.as_long()
        if sep is None:
            ex.unsupported(st, ctx, "split() on whitespace", node)
            return VNone
        return b.new_list_seq(ex, st, _split(ex, st, ctx, s, sep, maxsplit, node), T_LIST)
    if name == "rsplit":
        sep = sarg(0)
        m = simp(as_int(args[1])) if len(args) > 1 else None
        if m is None or not z3.is_int_value(m) or m.as_long() != 1:
            ex.unsupported(st, ctx, "rsplit other than maxsplit=1", node)
            return VNone
        a, found, c = _rpart(ex, s, sep, st)
        seq = z3.If(found, z3.Concat(z3.Unit(VStr(a)), z3.Unit(VStr(c))), z3.Unit(VStr(s)))
        return b.new_list_seq(ex, st, seq, T_LIST)
    if name == "rpartition":
        sep = sarg(0)
        a, found, c = _rpart(ex, s, sep, st)
        seq = z3.If(found, z3.Concat(z3.Unit(VStr(a)), z3.Unit(VStr(sep)), z3.Unit(VStr(c))),
                    z3.Concat(z3.Unit(VStr(sv(""))), z3.Unit(VStr(sv(""))), z3.Unit(VStr(s))))
        return b.new_list_seq(ex, st, seq, T_TUPLE)
    if name == "partition":
        sep = sarg(0)
        i = z3.IndexOf(s, sep, 0)
        seq = z3.If(i >= 0, z3.Concat(z3.Unit(VStr(z3.SubString(s, 0, i))), z3.Unit(VStr(sep)),
                                       z3.Unit(VStr(z3.SubString(s, i + z3.Length(sep), z3.Length(s))))),
                    z3.Concat(z3.Unit(VStr(s)), z3.Unit(VStr(sv(""))), z3.Unit(VStr(sv("")))))
        return b.new_list_seq(ex, st, seq, T_TUPLE)
    if name == "format":
        return VStr(_format(ex, st, ctx, s, args, kwargs, node))
    if name == "find":
        return VInt(z3.IndexOf(s, sarg(0), 0))
    if name == "join":
        it = args[0]
        seq = simp(st.heap.lget(rval(it)))
        ln = simp(z3.Length(seq))
        if z3.is_int_value(ln):
            parts = []
            for i in range(ln.as_long()):
                if i:
                    parts.append(s)
                parts.append(sval(simp(seq[i])))
            return VStr(z3.Concat(*parts) if len(parts) > 1 else (parts[0] if parts else sv("")))
        return VStr(fresh("joined", S))
    if name == "capitalize":
        return VStr(z3.Function("u_capitalize", S, S)(s))
    if name == "encode":
        return VOpq(z3.Function("u_encode", S, I)(s))
    if name == "isdigit":
        return VBool(is_decimal(s))          # ASCII approximation (noted)
    if name == "upper":
        return VStr(z3.Function("u_upper", S, S)(s))
    if name == "count":
        return VInt(fresh("cnt", I))
    ex.unsupported(st, ctx, "str." + name, node)
    return VNone


WS = [" ", "\t", "\n", "\r", "\x0b", "\x0c"]


def _strip_ws(ex, s):
    """s.strip(): result r with s == a ++ r ++ c, a and c whitespace-only, r not starting/ending with whitespace.
    (ASCII whitespace; the Unicode whitespace characters str.strip also removes are not modelled -- noted.)"""
    sc = simp(s)
    if z3.is_string_value(sc):
        return sv(sc.as_string().strip())
    r, a, c = fresh("strip", S), fresh("lws", S), fresh("rws", S)
    ws = z3.Star(z3.Union(*[z3.Re(sv(w)) for w in WS]))
    nows = z3.Union(*[z3.Re(sv(w)) for w in WS])
    ex.assumptions.append(z3.And(s == z3.Concat(a, r, c), z3.InRe(a, ws), z3.InRe(c, ws),
                                 z3.Or(z3.Length(r) == 0,
                                       z3.And(z3.Not(z3.InRe(z3.SubString(r, 0, 1), nows)),
                                              z3.Not(z3.InRe(z3.SubString(r, z3.Length(r) - 1, 1), nows))))))
    # derived fact (saves the solver the induction): nothing to strip => identity
    ex.assumptions.append(z3.Implies(z3.And(z3.Length(s) > 0,
                                            z3.Not(z3.InRe(z3.SubString(s, 0, 1), nows)),
                                            z3.Not(z3.InRe(z3.SubString(s, z3.Length(s) - 1, 1), nows))),
                                     z3.And(r == s, a == sv(""), c == sv(""))))
    return r


def _strip_chars(ex, s, chars, which):
    sc = simp(s)
    if chars is not None and z3.is_string_value(chars) and z3.is_string_value(sc):
        f = getattr(sc.as_string(), which)
        return sv(f(chars.as_string()))
    if chars is None or not z3.is_string_value(chars):
        return fresh("strip", S)
    cs = chars.as_string()
    if not cs:
        return s
    cls = z3.Union(*[z3.Re(sv(c)) for c in cs]) if len(cs) > 1 else z3.Re(sv(cs))
    r, a, c = fresh("strip", S), fresh("lch", S), fresh("rch", S)
    facts = [s == z3.Concat(a, r, c), z3.InRe(a, z3.Star(cls)), z3.InRe(c, z3.Star(cls))]
    if which in ("strip", "lstrip"):
        facts.append(z3.Or(z3.Length(r) == 0, z3.Not(z3.InRe(z3.SubString(r, 0, 1), cls))))
    else:
        facts.append(z3.Length(a) == 0)
    if which in ("strip", "rstrip"):
        facts.append(z3.Or(z3.Length(r) == 0, z3.Not(z3.InRe(z3.SubString(r, z3.Length(r) - 1, 1), cls))))
    else:
        facts.append(z3.Length(c) == 0)
    ex.assumptions.append(z3.And(*facts))
    return r


def _replace_all(ex, s, old, new):
    sc, oc, nc = simp(s), simp(old), simp(new)
    if z3.is_string_value(sc) and z3.is_string_value(oc) and z3.is_string_value(nc):
        return sv(sc.as_string().replace(oc.as_string(), nc.as_string()))
    f = z3.Function("u_replace_all", S, S, S, S)
    r = f(s, old, new)
    # two sound facts: nothing to replace -> unchanged; result has no occurrence of `old` when new does not
    # reintroduce it (only the first is used by current obligations)
    ex.assumptions.append(z3.Implies(z3.Not(z3.Contains(s, old)), r == s))
    return r


def _rpart(ex, s, sep, st=None):
    """-> (a, found, c) with s == a ++ sep ++ c and sep not in c (last occurrence)."""
    sepc = simp(sep)
    under = z3.BoolVal(True)
    sm = None
    if z3.is_string_value(sepc) and len(sepc.as_string()) == 1:
        sm = SN.smart_rpartition(s, sepc.as_string())
        if sm is not None:
            g, head, tail = sm
            if z3.is_true(g) or (st is not None and ex.entails(st, g)):
                return head, z3.BoolVal(True), tail
            under = z3.Not(g)
    a, c = fresh("rp_a", S), fresh("rp_c", S)
    found = z3.Contains(s, sep)
    ex.assumptions.append(z3.Implies(z3.And(under, found), z3.And(s == z3.Concat(a, sep, c),
                                     z3.Not(z3.Contains(z3.Concat(z3.SubString(sep, 1, z3.Length(sep)), c), sep)))))
    if sm is not None:
        g, head, tail = sm
        return z3.If(g, head, a), z3.If(g, z3.BoolVal(True), found), z3.If(g, tail, c)
    return a, found, c


def _split(ex, st, ctx, s, sep, maxsplit, node, known=3):
    """s.split(sep, maxsplit) as a Seq(Val) (Appendix B).  For unbounded splits the first `known`
    elements are exact and the tail is an unknown non-empty sequence.

    Single-character constant separators use the word-equation form the string solvers like:
        has_k  <=>  contains(rest_k, sep);   rest_k == piece_k ++ sep ++ rest_k+1,  sep not in piece_k
    with fresh constants for pieces and rests."""
    ex.raise_if(st, ctx, z3.Length(sep) == 0, "ValueError", node=node)
    sc, pc = simp(s), simp(sep)
    if z3.is_string_value(sc) and z3.is_string_value(pc) and pc.as_string():
        parts = sc.as_string().split(pc.as_string(), -1 if maxsplit is None else maxsplit)
        return z3.Concat(*[z3.Unit(VStr(sv(p))) for p in parts]) if len(parts) > 1 else z3.Unit(VStr(sv(parts[0])))
    limit = maxsplit if maxsplit is not None else known
    if z3.is_string_value(pc) and len(pc.as_string()) == 1:
        sm = SN.smart_split(s, pc.as_string(), maxsplit)
        under = z3.BoolVal(True)
        static_seq = None
        if sm is not None:
            g, pieces = sm
            units = [z3.Unit(VStr(p)) for p in pieces]
            static_seq = z3.Concat(*units) if len(units) > 1 else units[0]
            if z3.is_true(g) or ex.entails(st, g):
                return static_seq
            under = z3.Not(g)

        def build1(k, rest):
            if k == limit:
                if maxsplit is not None:
                    return z3.Unit(VStr(rest))
                tail = fresh("splittail", SeqV)
                ex.assumptions.append(z3.Length(tail) >= 2)
                return z3.If(z3.Contains(rest, sep), tail, z3.Unit(VStr(rest)))
            piece, nxt = fresh("piece", S), fresh("rest", S)
            has = z3.Contains(rest, sep)
            ex.assumptions.append(z3.Implies(z3.And(under, has), z3.And(rest == z3.Concat(piece, sep, nxt),
                                                                        z3.Not(z3.Contains(piece, sep)))))
            return z3.If(has, z3.Concat(z3.Unit(VStr(piece)), build1(k + 1, nxt)), z3.Unit(VStr(rest)))
        gen = build1(0, s)
        if static_seq is not None:
            return z3.If(z3.Not(under), static_seq, gen)
        return gen
    n = z3.Length(s)
    sl = z3.Length(sep)

    def build(k, start):
        if k == limit:
            if maxsplit is not None:
                return z3.Unit(VStr(z3.SubString(s, start, n - start)))
            rest = z3.SubString(s, start, n - start)
            tail = fresh("splittail", SeqV)
            ex.assumptions.append(z3.Length(tail) >= 2)
            return z3.If(z3.Contains(rest, sep), tail, z3.Unit(VStr(rest)))
        i = z3.IndexOf(s, sep, start)
        return z3.If(i >= 0,
                     z3.Concat(z3.Unit(VStr(z3.SubString(s, start, i - start))), build(k + 1, i + sl)),
                     z3.Unit(VStr(z3.SubString(s, start, n - start))))
    return build(0, z3.IntVal(0))


def _format(ex, st, ctx, s, args, kwargs, node):
    b = _B()
    tc = simp(s)
    if z3.is_string_value(tc) and not kwargs:
        t = tc.as_string()
        # only auto-numbered plain fields and doubled braces
        parts = []
        i = 0
        argi = 0
        buf = ""
        ok = True
        while i < len(t):
            c = t[i]
            if c == "{" and t[i:i + 2] == "{{":
                buf += "{"
                i += 2
            elif c == "}" and t[i:i + 2] == "}}":
                buf += "}"
                i += 2
            elif c == "{" and t[i:i + 2] == "{}":
                if buf:
                    parts.append(sv(buf))
                    buf = ""
                if argi >= len(args):
                    ex.raise_if(st, ctx, z3.BoolVal(True), "IndexError", node=node)
                    return sv("")
                parts.append(b.py_str2(ex, st, args[argi]))
                argi += 1
                i += 2
            elif c in "{}":
                ok = False
                break
            else:
                buf += c
                i += 1
        if ok:
            if buf:
                parts.append(sv(buf))
            if not parts:
                return sv("")
            return simp(z3.Concat(*parts)) if len(parts) > 1 else parts[0]
    # symbolic template (States.Format): uninterpreted, may raise
    seq = EMPTY_SEQ
    for a in args:
        if isinstance(a, tuple):
            seq = z3.Concat(seq, st.heap.lget(rval(a[1])))
        else:
            seq = z3.Concat(seq, z3.Unit(a))
    bexc = fresh("format_raises", B)
    ex.raise_if(st, ctx, bexc, "Exception*", node=node)
    return b.u_fmt(s, seq)


def dict_method(ex, st, ctx, d, name, args, kwargs, node):
    b = _B()
    r = rval(d)
    if name == "get":
        ks = simp(b.dkey2(ex, st, args[0]))
        if z3.is_string_value(ks):
            ex.key_universe.add(ks.as_string())
        default = args[1] if len(args) > 1 else VNone
        return ite(b.hhas(ex, st, r, ks), ex.close_refs(b.hget(ex, st, r, ks)), default)
    if name in ("items", "keys", "values"):
        return ex.obj("dictitems", d, name)
    if name == "update":
        b.dict_update(ex, st, ctx, d, args[0], node)
        return VNone
    if name == "setdefault":
        ks = simp(b.dkey2(ex, st, args[0]))
        default = args[1] if len(args) > 1 else VNone
        has = st.heap.dhas(r, ks)
        cur = st.heap.dget(r, ks)
        st.heap = Heap.ite(has, st.heap, st.heap.dset(r, ks, default))
        return ite(has, cur, default)
    if name == "copy":
        nr = ex.new_ref(T_DICT)
        st.heap = st.heap.dcopy(nr, r)
        return VRef(nr)
    if name == "pop":
        ks = simp(b.dkey2(ex, st, args[0]))
        has = st.heap.dhas(r, ks)
        cur = st.heap.dget(r, ks)
        if len(args) > 1:
            st.heap = st.heap.ddel(r, ks)
            return ite(has, cur, args[1])
        ex.raise_if(st, ctx, z3.Not(has), "KeyError", node=node)
        st.heap = st.heap.ddel(r, ks)
        return cur
    ex.unsupported(st, ctx, "dict." + name, node)
    return VNone


def list_method(ex, st, ctx, l, name, args, kwargs, node):
    b = _B()
    r = rval(l)
    seq = st.heap.lget(r)
    if name == "append":
        st.heap = st.heap.lset(r, z3.Concat(seq, z3.Unit(args[0])))
        return VNone
    if name == "extend":
        ex.raise_if(st, ctx, z3.Not(b.is_seqref(args[0])), "TypeError", node=node)
        st.heap = st.heap.lset(r, z3.Concat(seq, st.heap.lget(rval(args[0]))))
        return VNone
    if name == "pop":
        n = z3.Length(seq)
        i = b.norm_index(as_int(args[0]), n) if args else n - 1
        ex.raise_if(st, ctx, z3.Or(i < 0, i >= n), "IndexError", node=node)
        v = seq[i]
        st.heap = st.heap.lset(r, z3.Concat(z3.SubSeq(seq, 0, i), z3.SubSeq(seq, i + 1, n - i - 1)))
        return v
    if name == "copy":
        return b.new_list_seq(ex, st, seq, T_LIST)
    if name == "insert":
        n = z3.Length(seq)
        i0 = as_int(args[0])
        i = z3.If(i0 < 0, z3.If(i0 + n < 0, 0, i0 + n), z3.If(i0 > n, n, i0))
        st.heap = st.heap.lset(r, z3.Concat(z3.SubSeq(seq, 0, i), z3.Unit(args[1]), z3.SubSeq(seq, i, n - i)))
        return VNone
    if name == "reverse" and not args:
        from .vals import u_rev, rev_facts
        ex.assumptions.append(rev_facts(seq))
        st.heap = st.heap.lset(r, u_rev(seq))
        return VNone
    ex.unsupported(st, ctx, "list." + name, node)
    return VNone


def locals_get(ex, st, ctx, fid, meth, args, node):
    """locals().get(<prefix> + name, default): the nested def of that exact name, else default (DESIGN 2.6)."""
    if meth != "get":
        ex.unsupported(st, ctx, "locals()." + meth, node)
        return VNone
    unit = ex.frame_unit[fid]
    name = args[0]
    default = args[1] if len(args) > 1 else VNone
    res = default
    ex.raise_if(st, ctx, z3.Not(is_Str(name)), "TypeError", node=node)
    # every local name bound at this point could be returned; nested defs are what the code relies on.
    for n, u in sorted(unit.nested.items()):
        res = z3.If(sval(name) == sv(n), ex.obj("closure", u, fid), res)
    others = [x for x in ex.locals_of(unit) if x not in unit.nested]
    nm = simp(sval(name))
    if z3.is_app(nm) and nm.decl().kind() == z3.Z3_OP_SEQ_CONCAT and z3.is_string_value(nm.arg(0)):
        pre = nm.arg(0).as_string()
        others = [x for x in others if x.startswith(pre)]
    nonfn = z3.Or(*[sval(name) == sv(x) for x in others]) if others else z3.BoolVal(False)
    s2 = st.fork()
    s2.guard(nonfn)
    if not s2.dead:
        ex.oblige(s2, "safe", "locals-dispatch-hits-non-function@%s" % getattr(node, "lineno", 0), z3.BoolVal(False),
                  span=getattr(node, "lineno", 0),
                  note="dynamic dispatch by name must not resolve to a non-function local")
    st.guard(z3.Not(nonfn))
    return res


from .bi_funcs import *   # noqa (part 3: builtin functions, classes, spec forms)
