"""
pyvc.regex -- CPython regular expressions -> SMT RegLan, with *Python's*
meaning (DESIGN.md 2.9, Appendix B): '.' excludes "\n"; '$' matches at the end
or before a final "\n"; search = some substring matches.

Patterns are parsed with CPython's own parser (re._parser), so what is
translated is what `re` compiles.  Unsupported nodes raise Unsupported.
"""
import z3

try:
    import re._parser as sre_parse
    import re._constants as sre_c
except ImportError:                      # python < 3.11
    import sre_parse
    import sre_constants as sre_c


class Unsupported(Exception):
    pass


def ch(c):
    return z3.Re(z3.StringVal(chr(c))) if c < 0x30000 else None


ALL = z3.AllChar(z3.ReSort(z3.StringSort()))
NL = z3.Re(z3.StringVal("\n"))
DOT = z3.Diff(ALL, NL)            # no DOTALL in this code base
SIGMA_STAR = z3.Star(ALL)
EMPTY = z3.Re(z3.StringVal(""))

_SPACE = [9, 10, 11, 12, 13, 28, 29, 30, 31, 32, 133, 160, 5760, 8192, 8193, 8194, 8195, 8196, 8197, 8198,
          8199, 8200, 8201, 8202, 8232, 8233, 8239, 8287, 12288]


def _category(cat):
    name = str(cat)
    if name.endswith("CATEGORY_DIGIT"):
        # \d in str patterns matches any Unicode decimal digit; we translate the ASCII subset and refuse
        # to claim more: callers that need exactness must restrict inputs (noted as an assumption)
        return z3.Range("0", "9"), False
    if name.endswith("CATEGORY_SPACE"):
        return z3.Union(*[ch(c) for c in _SPACE]), False
    if name.endswith("CATEGORY_NOT_SPACE"):
        return z3.Diff(ALL, z3.Union(*[ch(c) for c in _SPACE])), False
    if name.endswith("CATEGORY_WORD"):
        return z3.Union(z3.Range("a", "z"), z3.Range("A", "Z"), z3.Range("0", "9"), ch(ord("_"))), False
    raise Unsupported("category " + name)


def _in(items):
    neg = False
    parts = []
    for op, av in items:
        op = str(op)
        if op == "NEGATE":
            neg = True
        elif op == "LITERAL":
            parts.append(ch(av))
        elif op == "RANGE":
            parts.append(z3.Range(chr(av[0]), chr(av[1])))
        elif op == "CATEGORY":
            parts.append(_category(av)[0])
        else:
            raise Unsupported("class item " + op)
    u = parts[0] if len(parts) == 1 else z3.Union(*parts)
    return z3.Diff(ALL, u) if neg else u


def _seq(items):
    """-> (regex, anchored_start, anchored_end)"""
    rs = []
    a0 = a1 = False
    n = len(items)
    for i, (op, av) in enumerate(items):
        opn = str(op)
        if opn == "AT":
            an = str(av)
            if an == "AT_BEGINNING" and i == 0:
                a0 = True
                continue
            if an == "AT_END" and i == n - 1:
                a1 = True
                continue
            raise Unsupported("anchor " + an + " not at the pattern edge")
        rs.append(_node(op, av))
    if not rs:
        r = EMPTY
    elif len(rs) == 1:
        r = rs[0]
    else:
        r = z3.Concat(*rs)
    return r, a0, a1


def _node(op, av):
    opn = str(op)
    if opn == "LITERAL":
        return ch(av)
    if opn == "NOT_LITERAL":
        return z3.Diff(ALL, ch(av))
    if opn == "ANY":
        return DOT
    if opn == "IN":
        return _in(av)
    if opn == "MAX_REPEAT":
        lo, hi, sub = av
        r, a0, a1 = _seq(list(sub))
        if a0 or a1:
            raise Unsupported("anchor inside repeat")
        if hi == sre_c.MAXREPEAT:
            if lo == 0:
                return z3.Star(r)
            if lo == 1:
                return z3.Plus(r)
            return z3.Concat(z3.Loop(r, lo, lo), z3.Star(r))
        return z3.Loop(r, lo, hi)
    if opn == "BRANCH":
        alts = []
        for alt in av[1]:
            r, a0, a1 = _seq(list(alt))
            if a0 or a1:
                raise Unsupported("anchor inside alternation")
            alts.append(r)
        return z3.Union(*alts) if len(alts) > 1 else alts[0]
    if opn == "SUBPATTERN":
        r, a0, a1 = _seq(list(av[-1]))
        if a0 or a1:
            raise Unsupported("anchor inside group")
        return r
    if opn == "CATEGORY":
        return _category(av)[0]
    raise Unsupported("regex node " + opn)      # MIN_REPEAT, ASSERT, ASSERT_NOT, GROUPREF, ...


def translate(pattern):
    """-> (regex for the matched text, anchored at start?, anchored at end?)"""
    tree = sre_parse.parse(pattern)
    return _seq(list(tree))


def search_lang(pattern):
    """RegLan L such that  re.search(pattern, s) is truthy  <=>  s in L."""
    r, a0, a1 = translate(pattern)
    parts = []
    if not a0:
        parts.append(SIGMA_STAR)
    parts.append(r)
    if a1:
        parts.append(z3.Option(NL))       # '$' also matches before a final newline
    else:
        parts.append(SIGMA_STAR)
    return z3.Concat(*parts) if len(parts) > 1 else parts[0]


def match_lang(pattern):
    """re.match: anchored at 0 only."""
    r, a0, a1 = translate(pattern)
    parts = [r]
    if a1:
        parts.append(z3.Option(NL))
    else:
        parts.append(SIGMA_STAR)
    return z3.Concat(*parts)


def fullmatch_lang(pattern):
    r, a0, a1 = translate(pattern)
    return r
