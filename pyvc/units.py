"""
pyvc.units -- read the real source of /repo (or $LSF_REPO) and index every
function definition as a *unit* (DESIGN.md 2.2).

Key format:   <path relative to the python root>::<qualname>
e.g.          asl_workflow_engine/arn.py::parse_arn
              asl_workflow_engine/state_engine.py::StateEngine.notify.<locals>.handle_error
"""
import ast
import hashlib
import os

REPO = os.environ.get("LSF_REPO", "/repo")
PYROOT = os.path.join(REPO, "asl-workflow-engine", "py")


class Unit(object):
    def __init__(self, key, node, module, parent, cls):
        self.key = key            # str
        self.node = node          # ast.FunctionDef / AsyncFunctionDef / Lambda
        self.module = module      # Module
        self.parent = parent      # enclosing Unit or None
        self.cls = cls            # enclosing class name or None
        self.nested = {}          # name -> Unit (direct nested defs)

    @property
    def name(self):
        return self.node.name

    def ast_hash(self):
        return hashlib.sha256(ast.dump(self.node, include_attributes=False).encode()).hexdigest()[:16]

    def span(self):
        return [self.node.lineno, self.node.end_lineno]

    def params(self):
        a = self.node.args
        names = [x.arg for x in a.posonlyargs + a.args]
        defaults = [None] * (len(names) - len(a.defaults)) + list(a.defaults)
        out = list(zip(names, defaults))
        for x, d in zip(a.kwonlyargs, a.kw_defaults):
            out.append((x.arg, d))
        return out

    def __repr__(self):
        return "<Unit %s>" % self.key


class Module(object):
    def __init__(self, relpath, path):
        self.relpath = relpath
        self.path = path
        with open(path, "rb") as f:
            raw = f.read()
        self.sha256 = hashlib.sha256(raw).hexdigest()
        self.src = raw.decode("utf-8")
        self.tree = ast.parse(self.src, filename=path)
        self.units = {}          # qualname -> Unit
        self.constants = {}      # module-level NAME = <literal>
        self.imports = {}        # local name -> dotted target ("json", "asl_workflow_engine.arn.parse_arn", ...)
        self.classes = {}        # class name -> (ast.ClassDef, [base names])
        self._index()

    def _index(self):
        for st in self.tree.body:
            self._index_stmt(st)
        self._walk(self.tree.body, "", None, None)

    def _index_stmt(self, st):
        if isinstance(st, ast.Assign) and len(st.targets) == 1 and isinstance(st.targets[0], ast.Name):
            try:
                self.constants[st.targets[0].id] = ast.literal_eval(st.value)
            except Exception:
                pass
        elif isinstance(st, ast.Import):
            for al in st.names:
                self.imports[al.asname or al.name.split(".")[0]] = al.name if al.asname else al.name.split(".")[0]
        elif isinstance(st, ast.ImportFrom):
            for al in st.names:
                if al.name == "*":
                    self.imports.setdefault("*", []).append(st.module)
                else:
                    self.imports[al.asname or al.name] = (st.module or "") + "." + al.name
        elif isinstance(st, ast.Try):
            # `try: import ujson as json / except: import json` -- the fallback (stdlib) is what is installed
            for h in st.handlers:
                for s2 in h.body:
                    self._index_stmt(s2)
            if not st.handlers:
                for s2 in st.body:
                    self._index_stmt(s2)
        elif isinstance(st, ast.ClassDef):
            bases = []
            for b in st.bases:
                if isinstance(b, ast.Name):
                    bases.append(b.id)
                elif isinstance(b, ast.Attribute):
                    bases.append(b.attr)
            self.classes[st.name] = (st, bases)

    def _walk(self, body, prefix, parent, cls):
        for st in body:
            if isinstance(st, (ast.FunctionDef, ast.AsyncFunctionDef)):
                q = prefix + st.name
                u = Unit(self.relpath + "::" + q, st, self, parent, cls)
                self.units[q] = u
                if parent is not None:
                    parent.nested[st.name] = u
                self._walk_nested(st.body, q + ".<locals>.", u, cls)
            elif isinstance(st, ast.ClassDef):
                self._walk(st.body, prefix + st.name + ".", parent, st.name)
            elif isinstance(st, (ast.If, ast.Try, ast.With, ast.For, ast.While)):
                for fld in ("body", "orelse", "finalbody"):
                    self._walk(getattr(st, fld, []) or [], prefix, parent, cls)
                for h in getattr(st, "handlers", []) or []:
                    self._walk(h.body, prefix, parent, cls)

    def _walk_nested(self, body, prefix, parent, cls):
        # nested defs may sit inside if/try/with/for blocks of the parent
        self._walk(body, prefix, parent, cls)


class Repo(object):
    """Lazy table of modules under the python root of the repository."""

    def __init__(self, pyroot=None):
        self.pyroot = pyroot or PYROOT
        self.modules = {}

    def module(self, relpath):
        if relpath not in self.modules:
            self.modules[relpath] = Module(relpath, os.path.join(self.pyroot, relpath))
        return self.modules[relpath]

    def extra_module(self, relkey, path, is_lemma=False, is_spec=False):
        """A module outside the repository (lemmas, spec functions) indexed the same way."""
        m = Module(relkey, path)
        for u in m.units.values():
            u.is_lemma = is_lemma
            u.is_spec = is_spec
        self.modules[relkey] = m
        return m

    def unit(self, key):
        relpath, q = key.split("::", 1)
        m = self.module(relpath)
        if q not in m.units:
            raise KeyError("no unit %s (contract does not bind)" % key)
        return m.units[q]

    def module_by_dotted(self, dotted):
        rel = dotted.replace(".", "/") + ".py"
        if os.path.exists(os.path.join(self.pyroot, rel)):
            return self.module(rel)
        return None
