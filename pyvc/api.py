"""
pyvc.api -- what a property module (/verif/props/Cnn.py) uses to say what is verified.
"""
import importlib
import os
import sys

from .units import Repo
from .contracts import Registry, Contract, LoopContract  # noqa

VERIF = os.path.dirname(os.path.dirname(os.path.abspath(__file__)))


class Target(object):
    def __init__(self, key, contract, label=None, inline_all=False, timeout=None, jobs=4, obl_prefix=None,
                 native=None, tags=None, order=None, track_dict_len=False):
        self.key = key
        self.contract = contract
        self.label = label or key
        self.inline_all = inline_all
        self.timeout = timeout
        self.jobs = jobs
        self.obl_prefix = obl_prefix
        self.native = native          # how to call the real unit natively (for replay / sanity samples)
        self.order = order            # solver order for this target (default z3new, cvc5, z3old)
        self.track_dict_len = track_dict_len   # instantiate the cardinality law of len(dict) at writes
        # tags: clause labels look like "C03:handed-over"; with tags=("C03",) only the tagged post / pre@site
        # clauses of those properties are kept (untagged obligations -- safety, frames, type preconditions,
        # covers -- always stay: they are what makes the callee contracts usable at all)
        self.tags = tuple(tags) if tags else None

    def keeps(self, obl_id):
        if not self.tags:
            return True
        label = obl_id.split("/", 3)[-1]
        import re
        found = re.findall(r"(?:^|[/ ])(C\d\d(?:,C\d\d)*):", label)
        if not found:
            return True
        for f in found:
            if set(f.split(",")) & set(self.tags):
                return True
        return False


class Native(object):
    """A check executed natively on the real code by /venv/bin/python (natives/<module>.py).
    kind: 'bounded'  (bounded stand-in, never counted as proved)
          'sanity'   (contract sanity samples)
          'witness'  (known-finding witness)"""

    def __init__(self, name, func, kind="bounded", args=None, bound=None, clause=None, timeout=600):
        self.name, self.func, self.kind, self.args = name, func, kind, args or {}
        self.bound = bound
        self.clause = clause
        self.timeout = timeout


class Property(object):
    def __init__(self, pid):
        self.id = pid
        self.repo = Repo()
        self.reg = Registry()
        self.targets = []
        self.natives = []
        self.assumptions = []
        self.category = "proof"
        self.explanation = ""
        self.not_decided = []

    def use_contracts(self, *modules):
        for m in modules:
            mod = importlib.import_module("contracts." + m)
            mod.register(self.reg, self.repo)

    def lemma_module(self, rel):
        path = os.path.join(VERIF, rel)
        return self.repo.extra_module(rel, path, is_lemma=True)

    def spec_module(self, rel):
        path = os.path.join(VERIF, rel)
        m = self.repo.extra_module(rel, path, is_spec=True)
        if not hasattr(self.reg, "spec_units"):
            self.reg.spec_units = {}
        for q, u in m.units.items():
            if "." not in q:
                self.reg.spec_units[q] = u
                self.reg.spec_src[q] = rel
        return m

    def verify(self, key, contract=None, **kw):
        if contract is None:
            contract = self.reg.by_key.get(key)
            if contract is None:
                raise KeyError("no contract registered for " + key)
        sc = getattr(contract, "scope", None)
        if sc is not None:
            for g, srt in sc.ghost_sorts.items():
                self.reg.ghost_sorts.setdefault(g, srt)
        t = Target(key, contract, **kw)
        self.targets.append(t)
        return t

    def lemma(self, key, native=None, **ckw):
        tkw = {}
        for k in ("label", "inline_all", "timeout", "jobs", "obl_prefix", "tags", "order", "track_dict_len"):
            if k in ckw:
                tkw[k] = ckw.pop(k)
        ckw.setdefault("raises", {})
        c = Contract(key, **ckw)
        t = Target(key, c, native=native, **tkw)
        self.targets.append(t)
        return t

    def native(self, *a, **kw):
        n = Native(*a, **kw)
        self.natives.append(n)
        return n

    def assume(self, text):
        self.assumptions.append(text)


def load_property(pid):
    if VERIF not in sys.path:
        sys.path.insert(0, VERIF)
    mod = importlib.import_module("props." + pid)
    P = Property(pid)
    mod.build(P)
    return P
