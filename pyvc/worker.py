"""
pyvc.worker -- verify ONE target of a property in its own process and print a JSON report.

    python3-vt -m pyvc.worker <prop id> <target index> <tier> <workdir>
"""
import json
import os
import sys
import time
import traceback

import z3


def main():
    prop_id, idx, tier, workdir = sys.argv[1], int(sys.argv[2]), sys.argv[3], sys.argv[4]
    from . import api, solve
    from .exec import Exec
    from .state import OutOfSubset
    t0 = time.time()
    out = {"prop": prop_id, "index": idx, "ok": False}
    try:
        P = api.load_property(prop_id)
        tgt = P.targets[idx]
        out["target"] = tgt.label
        ex = Exec(P.repo, P.reg, prop_id)
        ex.workdir = os.path.join(workdir, "t%d" % idx)
        os.makedirs(ex.workdir, exist_ok=True)
        if tgt.inline_all:
            ex.inline_all = True
        ex.track_dict_len = bool(getattr(tgt, "track_dict_len", False))
        unit = P.repo.unit(tgt.key)
        out["unit"] = {"key": unit.key, "file": unit.module.path, "sha256": unit.module.sha256,
                       "ast_hash": unit.ast_hash(), "span": unit.span()}
        t1 = time.time()
        obs = ex.verify_unit(unit, tgt.contract)
        if tgt.obl_prefix:
            for o in obs:
                o.id = o.id.replace("/" + ex.obl_prefix + "/", "/" + tgt.obl_prefix + "/", 1)
        out["vcgen_s"] = round(time.time() - t1, 3)
        out["generated"] = len(obs)
        obs = [o for o in obs if tgt.keeps(o.id)]
        timeout = tgt.timeout or (20 if tier == "quick" else 120)
        if os.environ.get("PYVC_TIMEOUT"):
            timeout = int(os.environ["PYVC_TIMEOUT"])          # debugging aid
        both = (tier == "thorough")
        syms = []
        for name, (v, typ) in sorted(getattr(ex, "param_syms", {}).items()):
            syms.append((name, typ, v))
        res = solve.discharge_all(ex, obs, ex.workdir, timeout_s=timeout, jobs=tgt.jobs, both=both, order=tgt.order)
        # an obligation that was discharged on the pinned tree (baseline_obligations.json) and is undecided now gets a
        # second, much longer attempt before the driver reports it: a slow machine must not look like a violation
        try:
            base = set(json.load(open(os.path.join(os.path.dirname(os.path.dirname(os.path.abspath(__file__))),
                                                   "baseline_obligations.json"))).get(prop_id, []))
        except Exception:
            base = set()
        def final_id(o):
            return o.id.replace("/" + ex.obl_prefix + "/", "/" + tgt.obl_prefix + "/", 1) if False else o.id
        again = [o for o in obs if o.expect == "unsat" and o.result.status == "unknown" and o.id in base]
        if again:
            first = {o.id: o.result for o in again}
            solve.discharge_all(ex, again, ex.workdir, timeout_s=timeout * 4, jobs=tgt.jobs, both=False, order=tgt.order)
            for o in again:
                o.result.log = list(first[o.id].log) + [("long:" + str(w), s_, d_) for (w, s_, d_) in o.result.log]
        ol = []
        cache = {}
        for o in obs:
            r = o.result
            d = {"id": o.id, "kind": o.kind, "expect": o.expect, "status": r.status, "solver": r.solver,
                 "time": round(r.time, 3), "log": r.log, "note": o.note, "span": o.span}
            bad = (o.expect == "unsat" and r.status == "sat")
            if bad or (len(ol) < 2 and o.kind in ("post", "lemma")):
                # sample SMT goal; and a model for refuted obligations
                try:
                    gv = [v.sexpr() for _, _, v in syms]
                    txt, _ = solve.build_query(ex, o, cache, gv if bad else None)
                    d["smt_chars"] = len(txt)
                    if bad:
                        rr = solve.decide(txt, ex.workdir, o.id + "#model", timeout_s=timeout,
                                          order=(("z3new", "cvc5") if r.solver != "cvc5" else ("cvc5", "z3new")))
                        d["model_raw"] = (rr.model_text or "")[:20000]
                        d["model"] = parse_model(rr.model_text, syms)
                    else:
                        d["smt_head"] = txt[-1500:]
                except Exception as e:                                         # pragma: no cover
                    d["model_error"] = repr(e)
            ol.append(d)
        out["obligations"] = ol
        out["inlined"] = sorted(ex.inlined)
        out["contracted_calls"] = sorted(ex.contracted_calls)
        out["ext_calls"] = sorted(ex.ext_calls)
        out["trusted"] = sorted(ex.trusted)
        out["prune_queries"] = getattr(ex, "prune_queries", 0)
        out["n_assumptions"] = len(ex.assumptions)
        out["ok"] = True
    except OutOfSubset as e:
        out["error"] = "out-of-subset: %s (line %s)" % (e, getattr(getattr(e, "node", None), "lineno", "?"))
        out["trace"] = traceback.format_exc()
    except Exception as e:
        out["error"] = "checker error: %r" % (e,)
        out["trace"] = traceback.format_exc()
    out["wall_s"] = round(time.time() - t0, 3)
    sys.stdout.write("\n@@PYVC-REPORT@@" + json.dumps(out) + "\n")


def parse_model(text, syms):
    from . import solve
    if not text:
        return None
    lines = text.split("\n", 1)
    if len(lines) < 2:
        return None
    try:
        sx = solve.parse_sexpr(lines[1])
    except Exception:
        return None
    if not sx:
        return None
    vals = {}
    pairs = sx[0]
    for (name, typ, v), pair in zip(syms, pairs):
        try:
            vals[name] = solve.val_to_py(pair[1])
        except Exception:
            vals[name] = ["?", str(pair)]
    return vals


if __name__ == "__main__":
    main()
