"""
pyvc.state -- symbolic machine state, merging, exception classes.
"""
import z3
from .vals import *  # noqa


class OutOfSubset(Exception):
    """The unit uses a construct the executor does not model (DESIGN.md 2.2)."""

    def __init__(self, msg, node=None):
        Exception.__init__(self, msg)
        self.node = node


class State(object):
    """One guarded machine state.  `pc` is the path condition; states that are
    merged have mutually exclusive path conditions (the executor is
    deterministic; all nondeterminism is in fresh constants)."""
    __slots__ = ("pc", "frames", "heap", "ghost")

    def __init__(self, pc, frames, heap, ghost):
        self.pc = pc
        self.frames = frames      # fid -> {name: Val}
        self.heap = heap
        self.ghost = ghost        # name -> z3 term (any sort) or Heap (snapshots)

    def fork(self):
        return State(self.pc, {k: dict(v) for k, v in self.frames.items()}, self.heap, dict(self.ghost))

    def assign(self, other):
        self.pc, self.frames, self.heap, self.ghost = other.pc, other.frames, other.heap, other.ghost

    @property
    def dead(self):
        return z3.is_false(self.pc)

    def kill(self):
        self.pc = z3.BoolVal(False)

    def guard(self, c):
        self.pc = simp(z3.And(self.pc, c))


def _merge_term(c, a, b):
    if isinstance(a, Heap) or isinstance(b, Heap):
        return Heap.ite(c, a, b)
    if a is b:
        return a
    try:
        if a.eq(b):
            return a
    except Exception:
        pass
    return z3.If(c, a, b)


def join2(c, s1, s2):
    """Merge two states; `c` holds in s1 and not in s2 (or use s1.pc when unrelated)."""
    if s1 is None or s1.dead:
        return s2 if (s2 is not None and not s2.dead) else None
    if s2 is None or s2.dead:
        return s1
    frames = {}
    for fid in set(s1.frames) | set(s2.frames):
        f1, f2 = s1.frames.get(fid, {}), s2.frames.get(fid, {})
        out = {}
        for name in set(f1) | set(f2):
            out[name] = _merge_term(c, f1.get(name, VUnbound), f2.get(name, VUnbound))
        frames[fid] = out
    ghost = {}
    for g in set(s1.ghost) | set(s2.ghost):
        if g in s1.ghost and g in s2.ghost:
            ghost[g] = _merge_term(c, s1.ghost[g], s2.ghost[g])
        else:
            ghost[g] = s1.ghost.get(g, s2.ghost.get(g))
    return State(simp(z3.Or(s1.pc, s2.pc)), frames, Heap.ite(c, s1.heap, s2.heap), ghost)


def join(states):
    """Merge a list of states with mutually exclusive path conditions."""
    live = [s for s in states if s is not None and not s.dead]
    if not live:
        return None
    acc = live[-1]
    for s in reversed(live[:-1]):
        acc = join2(s.pc, s, acc)
    return acc


def join_vals(pairs):
    """pairs: [(State, Val)] with exclusive pcs -> (State, Val)"""
    live = [(s, v) for s, v in pairs if s is not None and not s.dead]
    if not live:
        return None, None
    st, val = live[-1]
    for s, v in reversed(live[:-1]):
        val = _merge_term(s.pc, v, val)
        st = join2(s.pc, s, st)
    return st, val


# --------------------------------------------------------------------------
# exception classes
# --------------------------------------------------------------------------
EXC_BASE = {
    "BaseException": None, "Exception": "BaseException",
    "ArithmeticError": "Exception", "OverflowError": "ArithmeticError", "ZeroDivisionError": "ArithmeticError",
    "LookupError": "Exception", "KeyError": "LookupError", "IndexError": "LookupError",
    "ValueError": "Exception", "JSONDecodeError": "ValueError", "UnicodeError": "ValueError",
    "TypeError": "Exception", "AttributeError": "Exception", "NameError": "Exception",
    "UnboundLocalError": "NameError", "RuntimeError": "Exception", "AssertionError": "Exception",
    "OSError": "Exception", "IOError": "OSError", "FileNotFoundError": "OSError",
    "StopIteration": "Exception", "NotImplementedError": "RuntimeError",
    "KeyboardInterrupt": "BaseException",
    # asl_exceptions.py (all derive from Exception; re-read from source by the executor as a cross-check)
    "Timeout": "Exception", "TaskFailed": "Exception", "Permissions": "Exception",
    "ResultPathMatchFailure": "Exception", "ParameterPathFailure": "Exception",
    "IntrinsicFailure": "Exception", "BranchFailed": "Exception", "NoChoiceMatched": "Exception",
    "PathMatchFailure": "Exception",
    # messaging_exceptions.py
    "MessagingError": "Exception", "ConnectionError": "MessagingError", "LinkError": "MessagingError",
    "SessionError": "MessagingError", "SendError": "LinkError", "ReceiverError": "LinkError",
    "ProducerError": "LinkError", "ConsumerError": "LinkError",
    # the executor's wildcard: "some subclass of Exception we know nothing about"
    "Exception*": "Exception",
}


def exc_is_subclass(cls, handler):
    """True / False / None (unknown: wildcard against a specific handler)."""
    if handler in ("BaseException",):
        return True
    if cls == "Exception*":
        if handler == "Exception":
            return True
        return None
    c = cls
    while c is not None:
        if c == handler:
            return True
        c = EXC_BASE.get(c)
    return False


class Exc(object):
    """A raised exception on some path: static class name + value (exception object ref / message)."""
    __slots__ = ("cls", "val")

    def __init__(self, cls, val):
        self.cls, self.val = cls, val
