"""
pyvc.state -- symbolic machine state, merging, exception classes.
"""
import z3
from .vals import *  # noqa


class OutOfSubset(Exception):
    """The unit uses a construct the executor does not model (DESIGN.md 2.2)."""

    def __init__(self, msg, node=None):
        Exception.__init__(self, msg)
        self.node = node


class State(object):
    """One guarded machine state.  The path condition is kept as a list of conjuncts so that states forked
    from a common ancestor share a prefix (by identity) and merge back to a small condition.  States that are
    merged have mutually exclusive path conditions (the executor is deterministic; all nondeterminism is in
    fresh constants)."""
    __slots__ = ("conj", "frames", "heap", "ghost", "_pc")

    def __init__(self, pc, frames, heap, ghost):
        self.conj = []
        self._pc = None
        if isinstance(pc, list):
            self.conj = list(pc)
        elif not z3.is_true(pc):
            self.conj = [pc]
        self.frames = frames      # fid -> {name: Val}
        self.heap = heap
        self.ghost = ghost        # name -> z3 term (any sort) or Heap (snapshots)

    @property
    def pc(self):
        if self._pc is None:
            if not self.conj:
                self._pc = z3.BoolVal(True)
            elif len(self.conj) == 1:
                self._pc = self.conj[0]
            else:
                self._pc = z3.And(*self.conj)
        return self._pc

    @pc.setter
    def pc(self, v):
        v = simp(v)
        self.conj = [] if z3.is_true(v) else [v]
        self._pc = None

    def fork(self):
        return State(list(self.conj), {k: dict(v) for k, v in self.frames.items()}, self.heap, dict(self.ghost))

    def assign(self, other):
        self.conj, self.frames, self.heap, self.ghost = list(other.conj), other.frames, other.heap, other.ghost
        self._pc = None

    @property
    def dead(self):
        return any(z3.is_false(c) for c in self.conj)

    def kill(self):
        self.conj = [z3.BoolVal(False)]
        self._pc = None

    def known(self, c):
        """True / False if `c` (or its negation) is syntactically one of the path-condition conjuncts, else None."""
        neg = c.arg(0) if z3.is_not(c) else None
        for x in self.conj:
            if x.eq(c):
                return True
            if neg is not None and x.eq(neg):
                return False
            if z3.is_not(x) and x.arg(0).eq(c):
                return False
        if z3.is_and(c):
            rs = [self.known(ch) for ch in c.children()]
            if all(r is True for r in rs):
                return True
            if any(r is False for r in rs):
                return False
        return None

    def resolve(self, v):
        """Strip top-level If nodes whose condition is decided by the path condition."""
        for _ in range(50):
            if z3.is_app(v) and v.decl().kind() == z3.Z3_OP_ITE:
                k = self.known(v.arg(0))
                if k is True:
                    v = v.arg(1)
                    continue
                if k is False:
                    v = v.arg(2)
                    continue
            break
        return v

    def guard(self, c):
        c = simp(c)
        if z3.is_true(c):
            return
        if z3.is_false(c):
            self.kill()
            return
        # cheap complementary-literal detection
        for x in self.conj:
            if x.eq(c):
                return
            if (z3.is_not(x) and x.arg(0).eq(c)) or (z3.is_not(c) and c.arg(0).eq(x)):
                self.kill()
                return
        if z3.is_and(c):
            for ch in c.children():
                self.guard(ch)
            return
        self.conj.append(c)
        self._pc = None


missing_hook = None      # set by the executor: (frame id, name) -> value of an unread environment entry, or VUnbound


def _merge_term(c, a, b):
    if isinstance(a, Heap) or isinstance(b, Heap):
        return Heap.ite(c, a, b)
    if a is b:
        return a
    try:
        if a.eq(b):
            return a
    except Exception:
        pass
    return ite_val(c, a, b)


def _split_common(s1, s2):
    n = 0
    a, b = s1.conj, s2.conj
    while n < len(a) and n < len(b) and (a[n] is b[n] or a[n].eq(b[n])):
        n += 1
    return a[:n], a[n:], b[n:]


def _conj(ts):
    if not ts:
        return z3.BoolVal(True)
    return ts[0] if len(ts) == 1 else z3.And(*ts)


def join2(c, s1, s2):
    """Merge two states with mutually exclusive path conditions (`c` is ignored: the distinguishing
    condition is computed from the path conditions relative to their common prefix)."""
    if s1 is None or s1.dead:
        return s2 if (s2 is not None and not s2.dead) else None
    if s2 is None or s2.dead:
        return s1
    common, t1, t2 = _split_common(s1, s2)
    c1, c2 = simp(_conj(t1)), simp(_conj(t2))
    both = simp(z3.Or(c1, c2))
    sel = c1
    frames = {}
    for fid in set(s1.frames) | set(s2.frames):
        f1, f2 = s1.frames.get(fid, {}), s2.frames.get(fid, {})
        out = {}
        for name in set(f1) | set(f2):
            # a name missing on one side is unbound there -- except in the synthetic frames that stand for the enclosing
            # functions' environments, whose entries are filled in lazily on first read (missing_hook gives the value a
            # read on that side would have produced)
            m = VUnbound
            if (name not in f1 or name not in f2) and missing_hook is not None:
                m = missing_hook(fid, name)
            out[name] = _merge_term(sel, f1.get(name, m), f2.get(name, m))
        frames[fid] = out
    ghost = {}
    for g in set(s1.ghost) | set(s2.ghost):
        if g in s1.ghost and g in s2.ghost:
            ghost[g] = _merge_term(sel, s1.ghost[g], s2.ghost[g])
        else:
            ghost[g] = s1.ghost.get(g, s2.ghost.get(g))
    st = State(list(common), frames, Heap.ite(sel, s1.heap, s2.heap), ghost)
    st.guard(both)
    return st


def join(states):
    """Merge a list of states with mutually exclusive path conditions."""
    live = [s for s in states if s is not None and not s.dead]
    if not live:
        return None
    acc = live[-1]
    for s in reversed(live[:-1]):
        acc = join2(None, s, acc)
    return acc


def join_vals(pairs):
    """pairs: [(State, Val)] with exclusive pcs -> (State, Val)"""
    live = [(s, v) for s, v in pairs if s is not None and not s.dead]
    if not live:
        return None, None
    st, val = live[-1]
    for s, v in reversed(live[:-1]):
        common, t1, t2 = _split_common(s, st)
        val = _merge_term(simp(_conj(t1)), v, val)
        st = join2(None, s, st)
    return st, val


# --------------------------------------------------------------------------
# exception classes
# --------------------------------------------------------------------------
EXC_BASE = {
    "BaseException": None, "Exception": "BaseException",
    "ArithmeticError": "Exception", "OverflowError": "ArithmeticError", "ZeroDivisionError": "ArithmeticError",
    "LookupError": "Exception", "KeyError": "LookupError", "IndexError": "LookupError",
    "ValueError": "Exception", "JSONDecodeError": "ValueError", "UnicodeError": "ValueError",
    "TypeError": "Exception", "AttributeError": "Exception", "NameError": "Exception",
    "UnboundLocalError": "NameError", "RuntimeError": "Exception", "AssertionError": "Exception",
    "OSError": "Exception", "IOError": "OSError", "FileNotFoundError": "OSError",
    "StopIteration": "Exception", "NotImplementedError": "RuntimeError",
    "KeyboardInterrupt": "BaseException",
    # asl_exceptions.py (all derive from Exception; re-read from source by the executor as a cross-check)
    "Timeout": "Exception", "TaskFailed": "Exception", "Permissions": "Exception",
    "ResultPathMatchFailure": "Exception", "ParameterPathFailure": "Exception",
    "IntrinsicFailure": "Exception", "BranchFailed": "Exception", "NoChoiceMatched": "Exception",
    "PathMatchFailure": "Exception",
    # messaging_exceptions.py
    "MessagingError": "Exception", "ConnectionError": "MessagingError", "LinkError": "MessagingError",
    "SessionError": "MessagingError", "SendError": "LinkError", "ReceiverError": "LinkError",
    "ProducerError": "LinkError", "ConsumerError": "LinkError",
    # the executor's wildcard: "some subclass of Exception we know nothing about"
    "Exception*": "Exception",
}


def exc_is_subclass(cls, handler):
    """True / False / None (unknown: wildcard against a specific handler)."""
    if handler in ("BaseException",):
        return True
    if cls == "Exception*":
        if handler == "Exception":
            return True
        return None
    c = cls
    while c is not None:
        if c == handler:
            return True
        c = EXC_BASE.get(c)
    return False


class Exc(object):
    """A raised exception on some path: static class name + value (exception object ref / message)."""
    __slots__ = ("cls", "val")

    def __init__(self, cls, val):
        self.cls, self.val = cls, val
