"""
pyvc.contracts -- sidecar contract objects (DESIGN.md 2.4).

Contracts are *data*; clauses are Python expression strings evaluated by the
same evaluator as the code (in spec mode).  A clause is either "expr" or
("label", "expr").
"""
import ast


def _clauses(xs):
    out = []
    for i, c in enumerate(xs or []):
        if isinstance(c, (tuple, list)):
            label, text = c[0], c[1]
        else:
            label, text = "c%d" % i, c
        out.append((label, text, ast.parse(text.strip(), mode="eval").body))
    return out


def _mod_entry(m):
    """modifies entry: "expr"  or  ("expr", "guard")  -> (expr ast, guard ast | None)"""
    if isinstance(m, (tuple, list)):
        return (ast.parse(m[0], mode="eval").body, ast.parse(m[1], mode="eval").body)
    return (ast.parse(m, mode="eval").body, None)


class LoopContract(object):
    def __init__(self, invariants=None, modifies=None, modifies_vars=None, variant=None, unroll=None,
                 havoc_heap=None):
        self.invariants = _clauses(invariants)
        self.modifies = [_mod_entry(m) for m in (modifies or [])]   # heap refs the body may write
        self.modifies_vars = modifies_vars         # None = compute syntactically
        self.variant = variant
        self.unroll = unroll                       # int: unroll exactly that many iterations (complete only with an exhaustion obligation)
        self.havoc_heap = havoc_heap               # None = decide syntactically; True/False force


class Contract(object):
    def __init__(self, key, params=None, types=None, env=None, requires=None, ensures=None, raises=None,
                 xensures=None, modifies=None, ghost=None, loops=None, inline=False, pure=False,
                 result_type=None, fresh_result=None, assumes=None, note=None, opaque_calls=None,
                 covers=None, ghost_init=None, callbacks=None, preserves=None, protected=None, params_rename=None, ghost_modifies=None, distinct=None, covers_exit=None, ghost_post=None, ghost_pre=None):
        self.key = key
        self.params = params              # for externals: list of parameter names (defaults None)
        self.types = types or {}          # param name -> 'str' | 'int' | 'bool' | 'float' | 'dict' | 'list' | 'obj' | 'any' | 'json'
        self.env = env or {}              # free variable (closure environment) name -> type
        self.requires = _clauses(requires)
        self.ensures = _clauses(ensures)
        self.raises = raises or {}        # class name -> condition text (in the pre-state) or None (=may, unspecified)
        self.raises_ast = {k: (ast.parse(v, mode="eval").body if isinstance(v, str) else None)
                           for k, v in self.raises.items()}
        self.xensures = {k: _clauses(v) for k, v in (xensures or {}).items()}   # class -> clauses on exceptional exit
        self.modifies = modifies          # None = nothing; "ALL"; or list of expression texts naming refs
        self.modifies_ast = ([_mod_entry(m) for m in modifies]
                             if isinstance(modifies, (list, tuple)) else modifies)
        self.ghost = {k: ast.parse(v, mode="eval").body for k, v in (ghost or {}).items()}  # ghost var -> new value
        self.loops = loops or {}          # loop ordinal (int, in source order within the unit) -> LoopContract
        self.inline = inline              # callers inline the real body instead of using the contract
        self.pure = pure
        self.result_type = result_type
        self.fresh_result = fresh_result  # 'dict' / 'list': result is a newly allocated container
        self.assumes = assumes or []      # free-text assumptions to list in evidence
        self.note = note
        self.opaque_calls = opaque_calls or {}
        self.covers = _clauses(covers)    # must be reachable / satisfiable at entry (vacuity guards)
        self.ghost_init = ghost_init or {}
        self.callbacks = callbacks or []
        # ghost snapshot == heap at return, under a condition:  {ghost: cond text}
        self.ghost_post = {k: ast.parse(v, mode="eval").body for k, v in (ghost_post or {}).items()}
        self.covers_exit = _clauses(covers_exit)
        # ghost updates that happen on EVERY outcome of the call, also when it raises (e.g. "an attempt was made")
        self.ghost_pre = {k: ast.parse(v, mode="eval").body for k, v in (ghost_pre or {}).items()}
        self.distinct = [ast.parse(m, mode="eval").body for m in (distinct or [])]
        self.ghost_modifies = ghost_modifies   # None: any ghost may change; list: only these (plus `ghost=` keys)
        self.preserves = (preserves if preserves == "PROTECTED" else
                          [ast.parse(m, mode="eval").body for m in (preserves or [])])
        self.protected = [ast.parse(m, mode="eval").body for m in (protected or [])]


class Registry(object):
    def __init__(self):
        self.by_key = {}          # unit key -> Contract
        self.externals = []       # (dotted pattern, Contract)
        self.ghost_sorts = {}     # ghost var name -> ('bool'|'int'|'val'|'heap', initial symbolic?)
        self.lemmas = {}          # name -> (source text)
        self.spec_src = {}        # spec function name -> source

    def contract(self, key, **kw):
        c = Contract(key, **kw)
        self.by_key[key] = c
        return c

    def external(self, pattern, params, **kw):
        c = Contract("ext:" + pattern, params=params, **kw)
        self.externals.append((pattern, c))
        return c

    def ghost(self, name, sort):
        self.ghost_sorts[name] = sort

    def markers(self):
        """Ghost variables set by the `ghost=` clause of *unit* contracts: they record direct calls (with their
        arguments) made by the unit under verification and are never changed by a callee."""
        m = getattr(self, "_markers", None)
        if m is None or self._markers_n != len(self.by_key):
            m = set()
            for c in self.by_key.values():
                m |= set(c.ghost)
            self._markers, self._markers_n = m, len(self.by_key)
        return m

    local_externals = ()          # externals of the scope of the contract being verified (Contract.scope): looked up first

    def match_external(self, dotted):
        for pat, c in list(self.local_externals) + self.externals:
            if pat == dotted:
                return c
            if pat.endswith(".*") and (dotted.startswith(pat[:-1]) or dotted == pat[:-2]):
                return c
        return None
