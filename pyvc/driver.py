"""
pyvc.driver -- ./check Cnn [--tier quick|thorough] [--replay file] [--write-baseline]

Exit codes (DESIGN.md 2.12): 0 held / 1 VIOLATION / 2 undecided / 3 checker error.
"""
import argparse
import json
import os
import re
import shutil
import subprocess
import sys
import tempfile
import time
from concurrent.futures import ThreadPoolExecutor

VERIF = os.path.dirname(os.path.dirname(os.path.abspath(__file__)))
PYVT = shutil.which("python3-vt") or sys.executable
VENV_PY = "/venv/bin/python"
REPO = os.environ.get("LSF_REPO", "/repo")


def sh_json(cmd, marker, timeout, env=None, cwd=VERIF):
    try:
        p = subprocess.run(cmd, stdout=subprocess.PIPE, stderr=subprocess.PIPE, timeout=timeout, cwd=cwd, env=env)
    except subprocess.TimeoutExpired:
        return {"error": "timeout after %ss" % timeout}
    out = p.stdout.decode("utf-8", "replace")
    i = out.rfind(marker)
    if i < 0:
        return {"error": "no report (exit %s)" % p.returncode, "stderr": p.stderr.decode("utf-8", "replace")[-3000:],
                "stdout": out[-2000:]}
    return json.loads(out[i + len(marker):].strip().split("\n")[0])


def run_native(req, timeout=600):
    env = dict(os.environ)
    env["PYTHONPATH"] = VERIF
    env.setdefault("PYTHONHASHSEED", "0")
    with tempfile.NamedTemporaryFile("w", suffix=".json", delete=False) as f:
        json.dump(req, f)
        path = f.name
    try:
        return sh_json([VENV_PY, "-m", "natives.run", "@" + path], "@@NATIVE@@", timeout, env=env)
    finally:
        os.unlink(path)


def safe_name(s):
    return re.sub(r"[^A-Za-z0-9_.#-]+", "_", s)[-150:]


def load_known():
    p = os.path.join(VERIF, "known_findings.json")
    if not os.path.exists(p):
        return {"findings": [], "fixed": []}
    return json.load(open(p))


def load_baseline():
    p = os.path.join(VERIF, "baseline_obligations.json")
    if not os.path.exists(p):
        return {}
    return json.load(open(p))


def native_request_for(tgt, model):
    """Build a native replay request for a target from a solver model, or None."""
    if tgt.native is None or model is None:
        return None
    args = {}
    for name, v in model.items():
        if isinstance(v, list):      # ('ref', n) etc. came through JSON as lists
            return None
        args[name] = v
    req = dict(tgt.native)
    req["args"] = args
    c = tgt.contract
    req.setdefault("requires", [t for _, t, _ in c.requires])
    if req["cmd"] == "contract":
        req.setdefault("ensures", [[l, t] for l, t, _ in c.ensures])
        req.setdefault("raises", c.raises)
    return req


def main(argv=None):
    ap = argparse.ArgumentParser()
    ap.add_argument("prop")
    ap.add_argument("--tier", default=os.environ.get("VERIF_TIER", "quick"))
    ap.add_argument("--replay")
    ap.add_argument("--write-baseline", action="store_true")
    ap.add_argument("--only", help="substring filter on target labels (debugging; evidence not written)")
    ap.add_argument("--verbose", "-v", action="store_true")
    a = ap.parse_args(argv)
    seed = int(os.environ.get("VERIF_SEED", "0") or 0)
    tier = a.tier if a.tier in ("quick", "thorough") else "quick"
    if a.replay:
        return do_replay(a.replay)
    t0 = time.time()
    sys.path.insert(0, VERIF)
    from . import api
    try:
        P = api.load_property(a.prop)
    except Exception as e:
        import traceback
        traceback.print_exc()
        print("CHECKER-ERROR property=%s cannot load property module: %r" % (a.prop, e))
        return 3
    workdir = tempfile.mkdtemp(prefix="pyvc_%s_" % a.prop)
    idxs = [i for i, t in enumerate(P.targets) if not a.only or a.only in t.label]

    def run_t(i):
        env = dict(os.environ)
        env["PYTHONPATH"] = VERIF
        return i, sh_json([PYVT, "-m", "pyvc.worker", a.prop, str(i), tier, workdir], "@@PYVC-REPORT@@",
                          1800 if tier == "quick" else 7200, env=env)
    reports = {}
    with ThreadPoolExecutor(max_workers=min(8, max(1, len(idxs)))) as pool:
        for i, rep in pool.map(run_t, idxs):
            reports[i] = rep
    shutil.rmtree(workdir, ignore_errors=True)

    baseline = set(load_baseline().get(a.prop, []))
    known = load_known()
    violations, undecided, errors = [], [], []
    all_obl = []
    replay_dir = os.path.join(os.environ.get("PYVC_REPLAY_DIR") or os.path.join(VERIF, "replay"), a.prop)
    for i in idxs:
        rep = reports[i]
        tgt = P.targets[i]
        if not rep.get("ok"):
            errors.append("%s: %s" % (tgt.label, rep.get("error")))
            if a.verbose or True:
                sys.stderr.write((rep.get("trace") or rep.get("stderr") or "")[-3000:] + "\n")
            continue
        for o in rep["obligations"]:
            o["target"] = i
            all_obl.append(o)
            if o["expect"] == "sat":
                if o["status"] == "unsat":
                    errors.append("vacuous: %s is unsatisfiable" % o["id"])
                continue
            if o["status"] == "unsat":
                continue
            if o["status"] == "conflict":
                errors.append("solver disagreement on " + o["id"])
                continue
            # not discharged
            rp = {"property": a.prop, "obligation": o["id"], "kind": o["kind"], "unit": rep.get("unit"),
                  "solver_status": o["status"], "solver_log": o["log"], "note": o.get("note"),
                  "model": o.get("model"), "model_raw": o.get("model_raw")}
            confirmed = None
            req = native_request_for(tgt, o.get("model")) if o["status"] == "sat" else None
            if req is not None:
                nat = run_native(req)
                rp["native_request"] = req
                rp["native_result"] = nat
                confirmed = bool(nat.get("failed"))
            if o["status"] == "sat" or o["id"] in baseline:
                if confirmed is None or confirmed is False:
                    # try the target's bounded falsifiers for a concrete input
                    for n in P.natives:
                        if n.kind == "bounded" and n.clause and n.clause in o["id"]:
                            nat = run_native({"cmd": "custom", "func": n.func, "args": dict(n.args, seed=seed, tier=tier)},
                                             n.timeout)
                            if nat.get("failed"):
                                rp["native_request"] = {"cmd": "custom", "func": n.func,
                                                        "args": dict(n.args, seed=seed, tier=tier)}
                                rp["native_result"] = nat
                                confirmed = True
                                break
                os.makedirs(replay_dir, exist_ok=True)
                path = os.path.join(replay_dir, safe_name(o["id"]) + ".json")
                json.dump(rp, open(path, "w"), indent=1, default=repr)
                violations.append((o["id"], path, bool(confirmed)))
            else:
                undecided.append(o["id"])
    # obligations that were discharged at baseline but were not even generated now
    # (ids are compared modulo the "#n" suffix that numbers several obligations of the same label: how many call
    # sites / exception paths a unit has may change with harmless edits)
    strip = lambda s_: re.sub(r"#\d+$", "", s_)
    present = set(strip(o["id"]) for o in all_obl)
    if not a.only:
        for bid in sorted(set(strip(b_) for b_ in baseline) - present):
            kind = bid.split("/")[2] if bid.count("/") >= 3 else ""
            if kind in ("post", "lemma", "frame", "inv.init", "inv.keep", "pre@site", "eff"):
                undecided.append(bid + " (not generated: contract no longer binds?)")

    # native checks
    native_reports = []
    bounded_evals = 0
    for n in P.natives:
        if a.only:
            continue
        if n.kind == "witness":
            continue
        nat = run_native({"cmd": "custom", "func": n.func, "args": dict(n.args, seed=seed, tier=tier)}, n.timeout)
        nat["name"], nat["kind"], nat["bound"] = n.name, n.kind, n.bound
        native_reports.append(nat)
        if nat.get("error"):
            errors.append("native %s: %s" % (n.name, nat["error"]))
            sys.stderr.write(str(nat.get("trace", ""))[-2000:] + "\n")
        elif nat.get("failed"):
            os.makedirs(replay_dir, exist_ok=True)
            path = os.path.join(replay_dir, safe_name("native_" + n.name) + ".json")
            json.dump({"property": a.prop, "obligation": "%s/native/%s" % (a.prop, n.name),
                       "native_request": {"cmd": "custom", "func": n.func, "args": dict(n.args, seed=seed, tier=tier)},
                       "native_result": nat}, open(path, "w"), indent=1, default=repr)
            violations.append(("%s/native/%s" % (a.prop, n.name), path, True))
        bounded_evals += int(nat.get("evaluations", 0) or 0)

    # known findings: replay the witness; report while it still fails
    kf_lines = []
    used_by_natives = set()
    for nr in native_reports:
        used_by_natives |= set(nr.get("known") or [])
    for f in known.get("findings", []):
        # a finding is reported by the check of its own property, and by any other check whose bounded stand-in met
        # (and set aside) exactly that finding's histories
        if (f.get("property") != a.prop and f["id"] not in used_by_natives) or a.only:
            continue
        nat = run_native({"cmd": "custom", "func": f["witness"]["func"], "args": f["witness"].get("args", {})})
        if nat.get("error"):
            errors.append("known-finding witness %s: %s" % (f["id"], nat["error"]))
        elif nat.get("failed"):
            kf_lines.append("KNOWN-FINDING: property=%s %s -- %s" % (a.prop, f["id"], f["what"]))
        f["_result"] = nat

    wall = time.time() - t0
    n_req = [o for o in all_obl if o["expect"] == "unsat"]
    n_dis = [o for o in n_req if o["status"] == "unsat"]
    covers = [o for o in all_obl if o["expect"] == "sat"]
    by_backend = {}
    for o in all_obl:
        by_backend[o["solver"] or "none"] = by_backend.get(o["solver"] or "none", 0) + 1
    by_kind = {}
    for o in n_req:
        by_kind[o["kind"]] = by_kind.get(o["kind"], 0) + 1

    if a.write_baseline and not a.only:
        b = load_baseline()
        b[a.prop] = sorted(o["id"] for o in n_dis)
        json.dump(b, open(os.path.join(VERIF, "baseline_obligations.json"), "w"), indent=0, sort_keys=True)

    # ---------------------------------------------------------------- evidence
    if not a.only and re.match(r"C\d\d$", a.prop) and not os.environ.get("PYVC_NO_EVIDENCE"):
        units = []
        trusted = set()
        for i in idxs:
            rep = reports[i]
            if rep.get("ok"):
                u = dict(rep["unit"])
                u["inlined_real_bodies"] = rep["inlined"]
                u["callee_contracts_used"] = rep["contracted_calls"]
                u["external_contracts_used"] = rep["ext_calls"]
                u["vcgen_s"] = rep.get("vcgen_s")
                u["prune_queries"] = rep.get("prune_queries")
                units.append(u)
                trusted |= set(rep["trusted"])
        samples = []
        for o in all_obl:
            if "smt_head" in o and len(samples) < 3:
                samples.append({"obligation": o["id"], "kind": o["kind"], "status": o["status"], "solver": o["solver"],
                                "smt_goal_tail": o["smt_head"][-800:]})
        for o in all_obl[:12]:
            samples.append({"obligation": o["id"], "kind": o["kind"], "expect": o["expect"], "status": o["status"],
                            "solver": o["solver"], "time_s": o["time"]})
        assumptions = list(P.assumptions)
        for i in idxs:
            c = P.targets[i].contract
            for s in getattr(c, "assumes", []) or []:
                if s not in assumptions:
                    assumptions.append(s)
        assumptions += ["encoder: pyvc's translation of the Python subset to SMT, and the solvers (A1)",
                        "floats are reals; ints are mathematical; wall clock monotone; uuid4 unique (A5)"]
        assumptions += sorted("trusted/opaque: " + t for t in trusted)
        cov = {
            "obligations": len(n_req), "discharged": len(n_dis),
            "checker_cmd": "./check %s --tier %s" % (a.prop, tier),
            "trusted_base": sorted(trusted) + ["pyvc encoder", "z3 5.1.0 / cvc5 1.0.3 / z3 4.8.12 CLIs",
                                               "CPython ast / re._parser"],
            "by_kind": by_kind, "by_backend": by_backend, "cover_obligations": len(covers),
            "covers_sat": len([o for o in covers if o["status"] == "sat"]),
            "solver_time_s": round(sum(o["time"] for o in all_obl), 2),
            "units_under_contract": units,
            "undecided": undecided, "violations": [v[0] for v in violations],
            "bounded_checks": [{k: v for k, v in n.items() if k in ("name", "kind", "bound", "evaluations", "distinct",
                                                                     "exhaustive", "samples", "failed", "detail")}
                               for n in native_reports],
            "known_findings_reported": kf_lines,
            "not_decided_clauses": P.not_decided,
            "samples": samples,
            "explanation": P.explanation,
            "evaluations": len(all_obl) + bounded_evals,
            "distinct_nontrivial": len(n_dis),
            "rule": "one evaluation = one proof obligation sent to a solver (or one natively executed bounded case); "
                    "non-trivial = obligation discharged by a solver or the simplifier with expect=unsat",
        }
        ev = {"property_id": a.prop, "tier": tier, "seed": seed, "level": P.category, "coverage": cov,
              "assumptions": assumptions, "wall_s": round(wall, 2), "violations": len(violations)}
        os.makedirs(os.path.join(VERIF, "evidence"), exist_ok=True)
        json.dump(ev, open(os.path.join(VERIF, "evidence", a.prop + ".json"), "w"), indent=1, default=repr)

    # ---------------------------------------------------------------- verdict
    print("pyvc %s tier=%s: %d obligations, %d discharged, %d covers, %d undecided, %d violations, %d errors, %.1fs"
          % (a.prop, tier, len(n_req), len(n_dis), len(covers), len(undecided), len(violations), len(errors), wall))
    for n in native_reports:
        print("  native[%s] %s: evaluations=%s failed=%s" % (n["kind"], n["name"], n.get("evaluations"), n.get("failed")))
    for l in kf_lines:
        print(l)
    if a.verbose:
        for o in all_obl:
            print("  %-7s %-9s %s  %s" % (o["status"], o["solver"], o["id"], o["log"]))
    # a refuted obligation stands on its own (the solver exhibited a model of the real code's path formula), so it is
    # reported even when some other part of the check could not be carried out
    for e in errors:
        print("CHECKER-ERROR property=%s %s" % (a.prop, e))
    if violations:
        for oid, path, confirmed in violations:
            print("VIOLATION property=%s replay=%s obligation=%s%s" % (
                a.prop, path, oid, "" if confirmed else " no-failing-input-found"))
        return 1
    if errors:
        return 3
    if undecided:
        for u in undecided:
            print("UNDECIDED property=%s obligation=%s" % (a.prop, u))
        return 2
    return 0


def do_replay(path):
    rp = json.load(open(path))
    req = rp.get("native_request")
    if not req:
        print("replay file names obligation %s; no concrete input was found (solver: %s)" % (
            rp.get("obligation"), rp.get("solver_status")))
        print(json.dumps(rp.get("solver_log")))
        return 1
    nat = run_native(req)
    print(json.dumps(nat, indent=1, default=repr)[:4000])
    return 1 if nat.get("failed") else 0


if __name__ == "__main__":
    sys.exit(main())
