"""
pyvc.builtins -- Python's built-in operations on the Val/heap encoding.
Part 1: containers, operators, comparisons.  (Part 2: bi_calls.py)
"""
import ast
import z3

from .vals import *      # noqa
from .state import *     # noqa

TYPE_NAMES = {"str", "int", "float", "bool", "dict", "list", "tuple", "set", "bytes", "object", "type"}

u_dumps = z3.Function("u_dumps", Val, DVs, DPs, LSs, S)
u_loads = z3.Function("u_loads", S, Val)
u_timestamp = z3.Function("u_timestamp", I, R)
u_strmod = z3.Function("u_strmod", S, Val, S)
u_fmt = z3.Function("u_fmt", S, SeqV, S)


def box(t):
    """z3 term of a primitive sort -> Val"""
    if isinstance(t, bool):
        return VBool(z3.BoolVal(t))
    if isinstance(t, int):
        return VInt(z3.IntVal(t))
    if isinstance(t, str):
        return VStr(sv(t))
    s = t.sort()
    if s == Val:
        return t
    if s == B:
        return VBool(t)
    if s == I:
        return VInt(t)
    if s == R:
        return VFloat(t)
    if s == S:
        return VStr(t)
    raise OutOfSubset("cannot box sort %s" % s)


def unbox_like(v, like, st):
    """Convert a Val to the sort of `like` (ghost variable update)."""
    if like is None or isinstance(like, Heap):
        return v
    s = like.sort()
    if z3.is_bool(v) and s == B:
        return v
    if s == Val:
        return box(v)
    if s == B:
        return simp(truthy(v, st.heap)) if v.sort() == Val else v
    if s == I:
        return simp(as_int(v)) if v.sort() == Val else v
    if s == R:
        return simp(as_real(v)) if v.sort() == Val else v
    if s == S:
        return simp(sval(v)) if v.sort() == Val else v
    return v


def dkey(k):
    """dict key -> String index (string keys verbatim; other hashables get a NUL-prefixed rendering)."""
    k = simp(k)
    if z3.is_app(k) and k.decl().eq(Val.VStr):
        return k.arg(0)
    return z3.If(is_Str(k), sval(k), z3.Concat(sv("\x00"), z3.If(is_Int(k), int_to_str(ival(k)),
                 z3.If(is_None(k), sv("None"), z3.If(is_Bool(k), z3.If(bval(k), sv("1"), sv("0")), sv("?"))))))


def ref_upper_bound(r, depth=0):
    """b such that r < b follows from the closedness / parameter assumptions (syntactic), else None."""
    r = simp(r)
    if z3.is_int_value(r):
        return r.as_long() + 1
    if depth < 6 and z3.is_app(r) and r.decl().kind() == z3.Z3_OP_ITE:
        a, b = ref_upper_bound(r.arg(1), depth + 1), ref_upper_bound(r.arg(2), depth + 1)
        return None if (a is None or b is None) else max(a, b)
    if depth < 6 and z3.is_app(r) and r.decl().eq(Val.rval) and z3.is_app(r.arg(0)) and r.arg(0).decl().kind() == z3.Z3_OP_ITE:
        x = r.arg(0)
        a, b = ref_upper_bound(rval(x.arg(1)), depth + 1), ref_upper_bound(rval(x.arg(2)), depth + 1)
        return None if (a is None or b is None) else max(a, b)
    if z3.is_app(r) and r.decl().eq(Val.rval) and z3.is_app(r.arg(0)) and r.arg(0).decl().eq(Val.VRef):
        return ref_upper_bound(r.arg(0).arg(0), depth + 1)
    if z3.is_const(r) and r.decl().kind() == z3.Z3_OP_UNINTERPRETED and r.decl().name().endswith("_ref"):
        return 1
    if z3.is_app(r) and r.decl().eq(Val.rval):
        x = r.arg(0)
        if z3.is_const(x) and x.decl().kind() == z3.Z3_OP_UNINTERPRETED:
            return 1 if (x.decl().name().startswith("p_") or x.decl().name().startswith("env_")) else None
        if z3.is_app(x) and x.decl().kind() in (z3.Z3_OP_SELECT, z3.Z3_OP_SEQ_NTH):
            a = x.arg(0)
            if z3.is_app(a) and a.decl().kind() == z3.Z3_OP_SELECT:
                a = a.arg(0)
            if z3.is_const(a) and a.decl().kind() == z3.Z3_OP_UNINTERPRETED:
                return ARRAY_BOUND.get(a.decl().name())
    return None


def refs_distinct(ex, st, r1, r2):
    r1, r2 = simp(r1), simp(r2)
    if r1.eq(r2):
        return False
    c1, c2 = z3.is_int_value(r1), z3.is_int_value(r2)
    if c1 and c2:
        return r1.as_long() != r2.as_long()
    for grp in getattr(ex, "distinct_groups", ()):
        if r1.get_id() in grp and r2.get_id() in grp:
            return True
    if c1 or c2:
        c, o = (r1, r2) if c1 else (r2, r1)
        b = ref_upper_bound(o)
        if b is not None and c.as_long() >= b:
            return True
    return ex.quick(st, r1 != r2, sticky_fail=True) if st is not None else False


def heap_select(ex, st, arr, r, memo=None):
    """select(arr, r) for a ref-indexed heap array, resolving store chains with distinctness knowledge.
    Memoised on the (shared) heap DAG so merged heaps stay linear; whole results are also remembered across calls
    (a result computed under a path condition stays valid under every extension of it)."""
    r = simp(r)
    if memo is None:
        memo = {}
        if st is not None:
            g = ex.__dict__.setdefault("_hsel_memo", {})
            gk = (arr.get_id(), r.get_id())
            cur = frozenset(c.get_id() for c in st.conj)
            for pset, res in g.get(gk, ()):
                if pset <= cur:
                    return res
            res = heap_select(ex, st, arr, r, memo)
            g.setdefault(gk, []).append((cur, res))
            ex.__dict__.setdefault("_keepalive", []).append((arr, r, res))
            return res
    k = arr.get_id()
    if k in memo:
        return memo[k]
    res = None
    if z3.is_app(arr):
        kind = arr.decl().kind()
        if kind == z3.Z3_OP_STORE:
            idx = arr.arg(1)
            if idx.eq(r):
                res = arr.arg(2)
            elif refs_distinct(ex, st, idx, r):
                res = heap_select(ex, st, arr.arg(0), r, memo)
            else:
                res = z3.If(idx == r, arr.arg(2), heap_select(ex, st, arr.arg(0), r, memo))
        elif kind == z3.Z3_OP_ITE:
            kn = st.known(arr.arg(0)) if st is not None else None
            if kn is True:
                res = heap_select(ex, st, arr.arg(1), r, memo)
            elif kn is False:
                res = heap_select(ex, st, arr.arg(2), r, memo)
            else:
                a, b = heap_select(ex, st, arr.arg(1), r, memo), heap_select(ex, st, arr.arg(2), r, memo)
                res = a if a.eq(b) else z3.If(arr.arg(0), a, b)
    if res is None:
        res = z3.Select(arr, r)
    memo[k] = res
    ex.__dict__.setdefault("_keepalive", []).append(arr)
    return res


def hget(ex, st, r, ks):
    return z3.Select(heap_select(ex, st, st.heap.DV, r), ks)


def hhas(ex, st, r, ks):
    return z3.Select(heap_select(ex, st, st.heap.DP, r), ks)


def hlget(ex, st, r):
    return heap_select(ex, st, st.heap.LS, r)


def py_str2(ex, st, v):
    if dyn_kind(ex, st, v) == "str":
        return sval(v)
    return py_str(v, st.heap)


def dkey2(ex, st, k):
    k = simp(k)
    if static_tag(k) != "str" and ex.quick(st, is_Str(k)):
        return sval(k)
    return dkey(k)


def ref_kind(ex, v):
    """Static kind of a reference value if known (T_*), else None."""
    v = simp(v)
    if not (z3.is_app(v) and v.decl().eq(Val.VRef)):
        return None
    r = v.arg(0)
    k = getattr(ex, "ref_kinds", None)
    if k is None:
        k = ex.ref_kinds = {}
        for a in ex.assumptions:
            _harvest_kind(a, k)
        ex._harvested = len(ex.assumptions)
    else:
        for a in ex.assumptions[ex._harvested:]:
            _harvest_kind(a, k)
        ex._harvested = len(ex.assumptions)
    return k.get(str(r))


def _harvest_kind(a, k):
    # facts of the shape ty(r) == c   or   And(r <= 0, ty(r) == c)
    try:
        if z3.is_and(a):
            for ch in a.children():
                _harvest_kind(ch, k)
        elif z3.is_eq(a) and z3.is_app(a.arg(0)) and a.arg(0).decl().eq(ty) and z3.is_int_value(a.arg(1)):
            k[str(a.arg(0).arg(0))] = a.arg(1).as_long()
    except Exception:
        pass


def static_tag(v):
    """'none','bool','int','float','str','ref','fn','opq' if the constructor is syntactically known."""
    v = simp(v)
    if z3.is_app(v):
        d = v.decl()
        for name, con in (("none", Val.VNone), ("bool", Val.VBool), ("int", Val.VInt), ("float", Val.VFloat),
                          ("str", Val.VStr), ("ref", Val.VRef), ("fn", Val.VFn), ("opq", Val.VOpq)):
            if d.eq(con):
                return name
    return None


def dyn_kind(ex, st, v):
    """'str' / 'dict' / 'list' / 'tuple' / 'obj' / 'none' / None: static first, then a quick entailment test."""
    tag = static_tag(v)
    if tag == "ref":
        k = ref_kind(ex, v)
        if k is not None:
            return {T_DICT: "dict", T_LIST: "list", T_TUPLE: "tuple", T_OBJ: "obj", T_SET: "set", T_EXC: "exc"}.get(k)
    elif tag is not None:
        return tag
    if st is None:
        return None
    if tag == "ref" or ex.quick(st, is_Ref(v), sticky_fail=True):
        r = rval(v)
        for k, name in ((T_DICT, "dict"), (T_LIST, "list"), (T_TUPLE, "tuple"), (T_OBJ, "obj")):
            if ex.quick(st, ty(r) == k, sticky_fail=True):
                return name
        return None
    if tag is None:
        if ex.quick(st, is_Str(v), sticky_fail=True):
            return "str"
    return None


def new_list(ex, st, vals, kind=T_LIST):
    r = ex.new_ref(kind)
    seq = EMPTY_SEQ
    if vals:
        units = [z3.Unit(v) for v in vals]
        seq = z3.Concat(*units) if len(units) > 1 else units[0]
    st.heap = st.heap.lset(r, seq)
    return VRef(r)


def new_list_seq(ex, st, seq, kind=T_LIST):
    r = ex.new_ref(kind)
    st.heap = st.heap.lset(r, seq)
    return VRef(r)


def new_dict(ex, st):
    r = ex.new_ref(T_DICT)
    st.heap = st.heap.dnew(r)
    return VRef(r)


def is_dict(v):
    return z3.And(is_Ref(v), ty(rval(v)) == T_DICT)


def is_list(v):
    return z3.And(is_Ref(v), ty(rval(v)) == T_LIST)


def is_seqref(v):
    return z3.And(is_Ref(v), z3.Or(ty(rval(v)) == T_LIST, ty(rval(v)) == T_TUPLE))


def norm_index(i, n):
    return z3.If(i < 0, i + n, i)


def ref_split(ex, st, ctx, obj, fn, depth=0):
    """Dereferencing a value that is an If-tree over different objects: handle each object on its own path
    (so that references stay simple) and merge.  fn(state, value) -> Val."""
    o = st.resolve(simp(obj))
    if depth < 3 and z3.is_app(o) and o.decl().kind() == z3.Z3_OP_ITE and o.sort() == Val:
        c = o.arg(0)
        return ex.branch_val(st, c, lambda x: ref_split(ex, x, ctx, o.arg(1), fn, depth + 1),
                             lambda x: ref_split(ex, x, ctx, o.arg(2), fn, depth + 1))
    return fn(st, o)


def get_item(ex, st, ctx, obj, k, node):
    return ref_split(ex, st, ctx, obj, lambda x, o: _get_item(ex, x, ctx, o, k, node))


def _get_item(ex, st, ctx, obj, k, node):
    tag = static_tag(obj)
    dk = dyn_kind(ex, st, obj)
    if dk == "str":
        return _str_index(ex, st, ctx, obj, k, node)
    if dk in ("dict", "obj"):
        return _dict_get(ex, st, ctx, obj, k, node)
    if dk in ("list", "tuple"):
        return _list_get(ex, st, ctx, obj, k, node)
    if tag in ("none", "bool", "int", "float", "fn"):
        ex.raise_if(st, ctx, z3.BoolVal(True), "TypeError", node=node)
        return VNone
    if tag == "opq":
        return VOpq(fresh("opqitem", I))
    if ctx.spec:
        # specifications index dicts with string keys and sequences with integers: dispatch on the key
        kt = static_tag(k)
        if kt == "str":
            return _dict_get(ex, st, ctx, obj, k, node)
        if kt == "int":
            return ex.branch_val(st, is_Str(obj), lambda x: _str_index(ex, x, ctx, obj, k, node),
                                 lambda x: _list_get(ex, x, ctx, obj, k, node))
    # dynamic
    ok = z3.Or(is_Str(obj), is_Ref(obj))
    ex.raise_if(st, ctx, z3.Not(ok), "TypeError", node=node)
    if st.dead:
        return VNone
    isd = z3.And(is_Ref(obj), z3.Or(ty(rval(obj)) == T_DICT, ty(rval(obj)) == T_OBJ))
    isl = is_seqref(obj)
    ex.raise_if(st, ctx, z3.Not(z3.Or(is_Str(obj), isd, isl)), "TypeError", node=node)

    def f_str(x):
        return _str_index(ex, x, ctx, obj, k, node)

    def f_ref(x):
        return ex.branch_val(x, isd, lambda y: _dict_get(ex, y, ctx, obj, k, node),
                             lambda y: _list_get(ex, y, ctx, obj, k, node))
    return ex.branch_val(st, is_Str(obj), f_str, f_ref)


def _dict_get(ex, st, ctx, obj, k, node):
    ks = simp(dkey2(ex, st, k))
    if z3.is_string_value(ks):
        ex.key_universe.add(ks.as_string())
    r = rval(obj)
    ex.raise_if(st, ctx, z3.Not(hhas(ex, st, r, ks)), "KeyError", node=node)
    return ex.close_refs(hget(ex, st, r, ks))


def seq_len(seq):
    """Length of a Seq term, walking Concat / If / Unit / Empty structure statically where possible."""
    seq = simp(seq)
    if z3.is_app(seq):
        k = seq.decl().kind()
        if k == z3.Z3_OP_SEQ_UNIT:
            return z3.IntVal(1)
        if k == z3.Z3_OP_SEQ_EMPTY:
            return z3.IntVal(0)
        if k == z3.Z3_OP_SEQ_CONCAT:
            return simp(z3.Sum([seq_len(c) for c in seq.children()]))
        if k == z3.Z3_OP_ITE:
            return simp(z3.If(seq.arg(0), seq_len(seq.arg(1)), seq_len(seq.arg(2))))
    return z3.Length(seq)


def seq_nth(seq, i):
    """seq[i] for a concrete i, pushed through Concat / If / Unit (None if the structure is not static)."""
    seq = simp(seq)
    if not z3.is_app(seq):
        return None
    k = seq.decl().kind()
    if k == z3.Z3_OP_SEQ_UNIT:
        return seq.arg(0) if i == 0 else None
    if k == z3.Z3_OP_ITE:
        a, b = seq_nth(seq.arg(1), i), seq_nth(seq.arg(2), i)
        if a is None and b is None:
            return None
        # out-of-bounds alternatives are "don't care": the caller raises IndexError on them first
        if a is None:
            return b
        if b is None:
            return a
        return z3.If(seq.arg(0), a, b)
    if k == z3.Z3_OP_SEQ_CONCAT:
        kids = seq.children()
        for j, c in enumerate(kids):
            if j == len(kids) - 1:
                return seq_nth(c, i)
            ln = simp(seq_len(c))
            if not z3.is_int_value(ln):
                return None
            if i < ln.as_long():
                return seq_nth(c, i)
            i -= ln.as_long()
        return None
    return None


def _list_get(ex, st, ctx, obj, k, node):
    ex.raise_if(st, ctx, z3.Not(is_intlike(k)), "TypeError", node=node)
    seq = simp(hlget(ex, st, rval(obj)))
    ki = simp(as_int(k))
    if z3.is_int_value(ki) and ki.as_long() >= 0:
        n = seq_len(seq)
        v = seq_nth(seq, ki.as_long())
        if v is not None:
            ex.raise_if(st, ctx, ki >= n, "IndexError", node=node)
            return ex.close_refs(v)
    n = z3.Length(seq)
    i = norm_index(as_int(k), n)
    ex.raise_if(st, ctx, z3.Or(i < 0, i >= n), "IndexError", node=node)
    return ex.close_refs(seq[i])


def _str_index(ex, st, ctx, obj, k, node):
    ex.raise_if(st, ctx, z3.Not(is_intlike(k)), "TypeError", node=node)
    s = sval(obj)
    n = z3.Length(s)
    i = norm_index(as_int(k), n)
    ex.raise_if(st, ctx, z3.Or(i < 0, i >= n), "IndexError", node=node)
    return VStr(z3.SubString(s, i, 1))


def set_item(ex, st, ctx, obj, k, v, node):
    ref_split(ex, st, ctx, obj, lambda x, o: (_set_item(ex, x, ctx, o, k, v, node), VNone)[1])


def _set_item(ex, st, ctx, obj, k, v, node):
    tag = static_tag(obj)
    dk = dyn_kind(ex, st, obj)
    if dk in ("dict", "obj"):
        return _dict_set(ex, st, ctx, obj, k, v)
    if dk == "list":
        return _list_set(ex, st, ctx, obj, k, v, node)
    if tag is not None and tag != "ref":
        ex.raise_if(st, ctx, z3.BoolVal(True), "TypeError", node=node)
        return
    isd = z3.And(is_Ref(obj), z3.Or(ty(rval(obj)) == T_DICT, ty(rval(obj)) == T_OBJ))
    isl = is_list(obj)
    ex.raise_if(st, ctx, z3.Not(z3.Or(isd, isl)), "TypeError", node=node)
    if st.dead:
        return
    m = ex.branch(st, isd, lambda x: (_dict_set(ex, x, ctx, obj, k, v), x)[1],
                  lambda x: (_list_set(ex, x, ctx, obj, k, v, node), x)[1])
    if m is None:
        st.kill()
    else:
        st.assign(m)


def _dictlen_step(ex, st, before, after, had, grows):
    """len() of a dict across one insertion / deletion (instance of the cardinality law, stated where it happens)."""
    dlen = z3.Function("u_dictlen", KP, I)
    if grows:
        ex.assume(st, dlen(after) == dlen(before) + z3.If(had, 0, 1))
    else:
        ex.assume(st, dlen(after) == dlen(before) - z3.If(had, 1, 0))
    ex.assumptions.append(z3.And(dlen(before) >= 0, dlen(after) >= 0))


def _dict_set(ex, st, ctx, obj, k, v):
    v = ex.name_val(v)
    ks = simp(dkey2(ex, st, k))
    if z3.is_string_value(ks):
        ex.key_universe.add(ks.as_string())
    r = rval(obj)
    before = heap_select(ex, st, st.heap.DP, r)
    st.heap = st.heap.dset(r, ks, v)
    if getattr(ex, "track_dict_len", False):
        _dictlen_step(ex, st, before, z3.Store(before, ks, z3.BoolVal(True)), z3.Select(before, ks), True)


def _list_set(ex, st, ctx, obj, k, v, node):
    ex.raise_if(st, ctx, z3.Not(is_intlike(k)), "TypeError", node=node)
    r = rval(obj)
    seq = st.heap.lget(r)
    n = z3.Length(seq)
    i = norm_index(as_int(k), n)
    ex.raise_if(st, ctx, z3.Or(i < 0, i >= n), "IndexError", node=node)
    new = z3.Concat(z3.SubSeq(seq, 0, i), z3.Unit(v), z3.SubSeq(seq, i + 1, n - i - 1))
    st.heap = st.heap.lset(r, new)


def del_item(ex, st, ctx, obj, k, node):
    isd = z3.And(is_Ref(obj), z3.Or(ty(rval(obj)) == T_DICT, ty(rval(obj)) == T_OBJ))
    isl = is_list(obj)
    dk = dyn_kind(ex, st, obj)
    if dk in ("dict", "obj"):
        isd, isl = z3.BoolVal(True), z3.BoolVal(False)
    elif dk == "list":
        isd, isl = z3.BoolVal(False), z3.BoolVal(True)
    ex.raise_if(st, ctx, z3.Not(z3.Or(isd, isl)), "TypeError", node=node)
    if st.dead:
        return

    def dd(x):
        ks = simp(dkey2(ex, st, k))
        ex.raise_if(x, ctx, z3.Not(x.heap.dhas(rval(obj), ks)), "KeyError", node=node)
        before = heap_select(ex, x, x.heap.DP, rval(obj))
        x.heap = x.heap.ddel(rval(obj), ks)
        if getattr(ex, "track_dict_len", False):
            _dictlen_step(ex, x, before, z3.Store(before, ks, z3.BoolVal(False)), z3.Select(before, ks), False)
        return x

    def dl(x):
        r = rval(obj)
        seq = x.heap.lget(r)
        n = z3.Length(seq)
        ex.raise_if(x, ctx, z3.Not(is_intlike(k)), "TypeError", node=node)
        i = norm_index(as_int(k), n)
        ex.raise_if(x, ctx, z3.Or(i < 0, i >= n), "IndexError", node=node)
        x.heap = x.heap.lset(r, z3.Concat(z3.SubSeq(seq, 0, i), z3.SubSeq(seq, i + 1, n - i - 1)))
        return x
    m = ex.branch(st, isd, dd, dl)
    if m is None:
        st.kill()
    else:
        st.assign(m)


def clamp_slice(lo, hi, n):
    """Python slice bounds -> (start, length) for a sequence of length n."""
    if lo is None:
        a = z3.IntVal(0)
    else:
        a = z3.If(lo < 0, z3.If(lo + n < 0, 0, lo + n), z3.If(lo > n, n, lo))
    if hi is None:
        b = n
    else:
        b = z3.If(hi < 0, z3.If(hi + n < 0, 0, hi + n), z3.If(hi > n, n, hi))
    return a, z3.If(b - a < 0, 0, b - a)


def get_slice(ex, st, ctx, obj, lo, hi, node):
    for b in (lo, hi):
        if b is not None:
            ex.raise_if(st, ctx, z3.Not(z3.Or(is_intlike(b), is_None(b))), "TypeError", node=node)
    li = None if lo is None else as_int(lo)
    hi_ = None if hi is None else as_int(hi)
    tag = static_tag(obj)

    def f_str(x):
        s = sval(obj)
        a, ln = clamp_slice(li, hi_, z3.Length(s))
        return VStr(z3.SubString(s, a, ln))

    def f_list(x):
        seq = x.heap.lget(rval(obj))
        a, ln = clamp_slice(li, hi_, z3.Length(seq))
        return new_list_seq(ex, x, z3.SubSeq(seq, a, ln), T_LIST)
    if tag == "str":
        return f_str(st)
    if tag == "ref" and ref_kind(ex, obj) in (T_LIST, T_TUPLE):
        return f_list(st)
    ex.raise_if(st, ctx, z3.Not(z3.Or(is_Str(obj), is_seqref(obj))), "TypeError", node=node)
    if st.dead:
        return VNone
    return ex.branch_val(st, is_Str(obj), f_str, f_list)


def dict_update(ex, st, ctx, dst, src, node):
    """dst.update(src) / {**src}: pointwise merge (quantifier-free via array lambda is not available;
    we use a fresh content constrained key-wise by an axiom instantiated on the key universe)."""
    ex.raise_if(st, ctx, z3.Not(is_dict(src)), "TypeError", node=node)
    if st.dead:
        return
    rd, rs = rval(dst), rval(src)
    k = z3.Const("k!upd", S)
    nv, np_ = fresh("updv", KV), fresh("updp", KP)
    old_v, old_p = z3.Select(st.heap.DV, rd), z3.Select(st.heap.DP, rd)
    src_v, src_p = z3.Select(st.heap.DV, rs), z3.Select(st.heap.DP, rs)
    ex.assumptions.append(z3.ForAll([k], z3.And(
        z3.Select(np_, k) == z3.Or(z3.Select(old_p, k), z3.Select(src_p, k)),
        z3.Select(nv, k) == z3.If(z3.Select(src_p, k), z3.Select(src_v, k), z3.Select(old_v, k)))))
    st.heap = Heap(z3.Store(st.heap.DV, rd, nv), z3.Store(st.heap.DP, rd, np_), st.heap.LS)


# --------------------------------------------------------------------------
# operators
# --------------------------------------------------------------------------

def binop(ex, st, ctx, op, a, b, node):
    ta, tb = static_tag(a), static_tag(b)
    if isinstance(op, ast.Add):
        if ta == "str" and tb == "str":
            return VStr(z3.Concat(sval(a), sval(b)))
        both_num = z3.And(is_number(a), is_number(b))
        both_str = z3.And(is_Str(a), is_Str(b))
        both_seq = z3.And(is_seqref(a), is_seqref(b))
        ex.raise_if(st, ctx, z3.Not(z3.Or(both_num, both_str, both_seq)), "TypeError", node=node)
        if st.dead:
            return VNone
        num = z3.If(z3.Or(is_Float(a), is_Float(b)), VFloat(as_real(a) + as_real(b)), VInt(as_int(a) + as_int(b)))
        if is_false(both_seq):
            return z3.If(both_str, VStr(z3.Concat(sval(a), sval(b))), num)

        def f_seq(x):
            return new_list_seq(ex, x, z3.Concat(x.heap.lget(rval(a)), x.heap.lget(rval(b))), T_LIST)
        return ex.branch_val(st, both_seq, f_seq,
                             lambda x: z3.If(both_str, VStr(z3.Concat(sval(a), sval(b))), num))
    if isinstance(op, ast.Sub):
        ex.raise_if(st, ctx, z3.Not(z3.And(is_number(a), is_number(b))), "TypeError", node=node)
        return z3.If(z3.Or(is_Float(a), is_Float(b)), VFloat(as_real(a) - as_real(b)), VInt(as_int(a) - as_int(b)))
    if isinstance(op, ast.Mult):
        # [x] * n
        if ta == "ref" and ref_kind(ex, a) == T_LIST:
            return _list_repeat(ex, st, ctx, a, b, node)
        seqcase = z3.And(is_seqref(a), is_intlike(b))
        strcase = z3.Or(z3.And(is_Str(a), is_intlike(b)), z3.And(is_Str(b), is_intlike(a)))
        numcase = z3.And(is_number(a), is_number(b))
        ex.raise_if(st, ctx, z3.Not(z3.Or(numcase, seqcase, strcase)), "TypeError", node=node)
        if st.dead:
            return VNone
        numres = z3.If(z3.Or(is_Float(a), is_Float(b)), VFloat(as_real(a) * as_real(b)), VInt(as_int(a) * as_int(b)))
        if not is_false(z3.And(st.pc, z3.Or(seqcase, strcase))):
            bz = simp(b)
            if z3.is_app(bz) and bz.decl().eq(Val.VInt) and z3.is_int_value(bz.arg(0)) and bz.arg(0).as_long() <= 0:
                # x * 0: "" for a string, a new empty list / tuple for a sequence
                def f_seqrep(x):
                    return ex.branch_val(x, is_Str(a), lambda y: VStr(sv("")),
                                         lambda y: new_list_seq(ex, y, EMPTY_SEQ, T_LIST))
                return ex.branch_val(st, numcase, lambda x: numres, f_seqrep)
            sc = st.fork()
            sc.guard(z3.Or(seqcase, strcase))
            ex.unsupported(sc, ctx, "sequence repetition of unknown operand", node)
            st.guard(numcase)
        return numres
    if isinstance(op, ast.Div):
        ex.raise_if(st, ctx, z3.Not(z3.And(is_number(a), is_number(b))), "TypeError", node=node)
        ex.raise_if(st, ctx, as_real(b) == 0, "ZeroDivisionError", node=node)
        return VFloat(as_real(a) / as_real(b))
    if isinstance(op, ast.FloorDiv):
        ex.raise_if(st, ctx, z3.Not(z3.And(is_intlike(a), is_intlike(b))), "TypeError", node=node)
        ex.raise_if(st, ctx, as_int(b) == 0, "ZeroDivisionError", node=node)
        x, y = as_int(a), as_int(b)
        # Python floor division: z3 div is euclidean; adjust for negative divisor
        q = z3.If(y > 0, x / y, (-x) / (-y))
        return VInt(q)
    if isinstance(op, ast.Mod):
        if ta == "str":
            return VStr(u_strmod(sval(a), b))
        ex.raise_if(st, ctx, z3.Not(z3.Or(is_Str(a), z3.And(is_intlike(a), is_intlike(b)))), "TypeError", node=node)
        ex.raise_if(st, ctx, z3.And(is_intlike(a), as_int(b) == 0), "ZeroDivisionError", node=node)
        x, y = as_int(a), as_int(b)
        m = z3.If(y > 0, x % y, -((-x) % (-y)))
        return z3.If(is_Str(a), VStr(u_strmod(sval(a), b)), VInt(m))
    if isinstance(op, ast.Pow):
        ex.raise_if(st, ctx, z3.Not(z3.And(is_number(a), is_number(b))), "TypeError", node=node)
        return VFloat(u_pow(as_real(a), as_real(b)))
    ex.unsupported(st, ctx, "binop " + type(op).__name__, node)
    return VNone


def _list_repeat(ex, st, ctx, a, b, node):
    ex.raise_if(st, ctx, z3.Not(is_intlike(b)), "TypeError", node=node)
    seq = simp(st.heap.lget(rval(a)))
    n = as_int(b)
    ln = simp(z3.Length(seq))
    out = fresh("rep", SeqV)
    if z3.is_int_value(ln) and ln.as_long() == 1:
        x = simp(seq[0])
        i = z3.Const("i!rep", I)
        ex.assumptions.append(z3.Length(out) == z3.If(n > 0, n, 0))
        ex.assumptions.append(z3.ForAll([i], z3.Implies(z3.And(i >= 0, i < z3.Length(out)), out[i] == x)))
    else:
        ex.assumptions.append(z3.Length(out) == ln * z3.If(n > 0, n, 0))
    return new_list_seq(ex, st, out, T_LIST)


def compare(ex, st, ctx, op, a, b, node):
    if isinstance(op, ast.Eq):
        return simp(py_eq(a, b, st.heap)) if _cheap(a, b) else py_eq(a, b, st.heap)
    if isinstance(op, ast.NotEq):
        return z3.Not(py_eq(a, b, st.heap))
    if isinstance(op, (ast.Is, ast.IsNot)):
        r = a == b
        return r if isinstance(op, ast.Is) else z3.Not(r)
    if isinstance(op, (ast.Lt, ast.LtE, ast.Gt, ast.GtE)):
        nums = z3.And(is_number(a), is_number(b))
        strs = z3.And(is_Str(a), is_Str(b))
        ex.raise_if(st, ctx, z3.Not(z3.Or(nums, strs)), "TypeError", node=node)
        x, y = as_real(a), as_real(b)
        s, t = sval(a), sval(b)
        if isinstance(op, ast.Lt):
            return z3.If(nums, x < y, s < t)
        if isinstance(op, ast.LtE):
            return z3.If(nums, x <= y, s <= t)
        if isinstance(op, ast.Gt):
            return z3.If(nums, x > y, t < s)
        return z3.If(nums, x >= y, t <= s)
    if isinstance(op, (ast.In, ast.NotIn)):
        r = contains(ex, st, ctx, b, a, node)
        return r if isinstance(op, ast.In) else z3.Not(r)
    ex.unsupported(st, ctx, "compare op", node)
    return z3.BoolVal(False)


def _cheap(a, b):
    return static_tag(a) is not None or static_tag(b) is not None


def contains(ex, st, ctx, container, item, node):
    r = ref_split(ex, st, ctx, container, lambda x, o: VBool(_contains(ex, x, ctx, o, item, node)))
    return bval(r)


def _contains(ex, st, ctx, container, item, node):
    tag = static_tag(container)
    kind = ref_kind(ex, container) if tag == "ref" else None
    dk = dyn_kind(ex, st, container)
    if dk is not None and tag != "ref":
        tag = "ref" if dk in ("dict", "obj", "list", "tuple", "set") else dk
    if dk in ("dict", "obj"):
        kind = T_DICT
    elif dk in ("list", "tuple", "set"):
        kind = T_LIST
    if tag == "str":
        ex.raise_if(st, ctx, z3.Not(is_Str(item)), "TypeError", node=node)
        return str_contains(sval(container), sval(item))
    if tag == "ref" and kind in (T_DICT, T_OBJ):
        ks = simp(dkey2(ex, st, item))
        if z3.is_string_value(ks):
            ex.key_universe.add(ks.as_string())
        return hhas(ex, st, rval(container), ks)
    if tag == "ref" and kind in (T_LIST, T_TUPLE, T_SET):
        return _seq_contains(ex, st, container, item)
    if tag in ("none", "bool", "int", "float"):
        ex.raise_if(st, ctx, z3.BoolVal(True), "TypeError", node=node)
        return z3.BoolVal(False)
    ok = z3.Or(is_Str(container), is_Ref(container))
    ex.raise_if(st, ctx, z3.Not(ok), "TypeError", node=node)
    ex.raise_if(st, ctx, z3.And(is_Str(container), z3.Not(is_Str(item))), "TypeError", node=node)
    r = rval(container)
    ks = simp(dkey2(ex, st, item))
    if z3.is_string_value(ks):
        ex.key_universe.add(ks.as_string())
    return z3.If(is_Str(container), z3.Contains(sval(container), sval(item)),
                 z3.If(z3.Or(ty(r) == T_DICT, ty(r) == T_OBJ), st.heap.dhas(r, ks),
                       _seq_contains(ex, st, container, item)))


def str_contains(s, needle):
    from . import strnorm as SN
    n = simp(needle)
    if z3.is_string_value(n) and len(n.as_string()) == 1:
        r = SN.smart_contains(s, n.as_string())
        if r is not None:
            return r
    return z3.Contains(s, needle)


def _seq_contains(ex, st, container, item):
    seq = simp(hlget(ex, st, rval(container)))
    ln = simp(z3.Length(seq))
    if z3.is_int_value(ln) and ln.as_long() <= 16:
        return z3.Or(*[py_eq(simp(seq[i]), item, st.heap) for i in range(ln.as_long())]) if ln.as_long() else z3.BoolVal(False)
    # exact for primitives of the same constructor; Python's == is coarser for mixed numerics (noted)
    return z3.Contains(seq, z3.Unit(item))


from .bi_calls import *   # noqa  (part 2)
