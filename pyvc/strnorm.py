"""
pyvc.strnorm -- smart constructors for strings built by concatenation.

Identifiers in this code base (ARNs, correlation ids, task tokens, "a:b"
ranges) are built with + / format and taken apart with split / rpartition /
`in` on a one-character separator.  When the subject is syntactically a
concatenation  lit0 ++ v1 ++ lit1 ++ v2 ...  we compute the result structurally
*under the guard that the variable parts encountered do not contain the
separator*, and fall back to the generic encoding otherwise:

        If(guard, <static result>, <generic result>)

The guard is decided by the solver from the unit's preconditions, which is a
lookup rather than a word-equation proof.  Everything here is an equivalence
(no over- or under-approximation): for a one-character separator a match can
not straddle two parts.
"""
import z3
from .vals import *   # noqa


DEFS = {}     # id of a naming constant -> the term it names (installed by the executor)


def tokens(s):
    """Flatten a String term into [('lit', str) | ('var', term)] (looking through naming constants)."""
    s = simp(s)
    out = []

    def go(t):
        if t.get_id() in DEFS:
            return go(simp(DEFS[t.get_id()]))
        if z3.is_string_value(t):
            v = t.as_string()
            if v:
                if out and out[-1][0] == "lit":
                    out[-1] = ("lit", out[-1][1] + v)
                else:
                    out.append(("lit", v))
        elif z3.is_app(t) and t.decl().kind() == z3.Z3_OP_SEQ_CONCAT:
            for c in t.children():
                go(c)
        else:
            out.append(("var", t))
    go(s)
    return out


def untok(toks):
    parts = [sv(v) if k == "lit" else v for k, v in toks]
    if not parts:
        return sv("")
    return parts[0] if len(parts) == 1 else z3.Concat(*parts)


def smart_contains(s, ch):
    """contains(s, ch) for a one-character literal ch, pushed through concatenation."""
    toks = tokens(s)
    if len(toks) <= 1 and (not toks or toks[0][0] == "var"):
        return None
    alts = []
    for k, v in toks:
        if k == "lit":
            if ch in v:
                return z3.BoolVal(True)
        else:
            alts.append(z3.Contains(v, sv(ch)))
    if not alts:
        return z3.BoolVal(False)
    return z3.Or(*alts) if len(alts) > 1 else alts[0]


def smart_split(s, ch, maxsplit):
    """-> (guard, [piece terms]) or None.  Under `guard`, s.split(ch, maxsplit) == pieces."""
    toks = tokens(s)
    if not any(k == "lit" for k, _ in toks):
        return None
    guards = []
    pieces = []
    cur = []
    nsplit = 0
    i = 0
    done = False
    while i < len(toks) and not done:
        k, v = toks[i]
        if k == "var":
            guards.append(z3.Not(z3.Contains(v, sv(ch))))
            cur.append((k, v))
            i += 1
            continue
        # literal: split it as far as maxsplit allows
        rest_lit = v
        while True:
            j = rest_lit.find(ch)
            if j < 0 or (maxsplit is not None and nsplit >= maxsplit):
                if rest_lit:
                    cur.append(("lit", rest_lit))
                break
            if rest_lit[:j]:
                cur.append(("lit", rest_lit[:j]))
            pieces.append(untok(cur))
            cur = []
            nsplit += 1
            rest_lit = rest_lit[j + 1:]
        i += 1
        if maxsplit is not None and nsplit >= maxsplit:
            # everything that remains belongs to the last piece, unguarded
            cur.extend(toks[i:])
            done = True
    pieces.append(untok(cur))
    if maxsplit is not None and nsplit < maxsplit and any(k == "var" for k, _ in toks):
        # fewer separators in the literals than maxsplit: variables could still add splits -> they are guarded
        pass
    g = z3.And(*guards) if guards else z3.BoolVal(True)
    return simp(g), pieces


def smart_rpartition(s, ch):
    """-> (guard, head, found(bool python), tail) or None: split at the LAST ch under guard."""
    toks = tokens(s)
    if not any(k == "lit" and ch in v for k, v in toks):
        return None
    guards = []
    tail = []
    for idx in range(len(toks) - 1, -1, -1):
        k, v = toks[idx]
        if k == "var":
            guards.append(z3.Not(z3.Contains(v, sv(ch))))
            tail.insert(0, (k, v))
            continue
        j = v.rfind(ch)
        if j < 0:
            tail.insert(0, (k, v))
            continue
        head = list(toks[:idx])
        if v[:j]:
            head.append(("lit", v[:j]))
        if v[j + 1:]:
            tail.insert(0, ("lit", v[j + 1:]))
        g = z3.And(*guards) if guards else z3.BoolVal(True)
        return simp(g), untok(head), untok(tail)
    return None
