"""
pyvc.solve -- obligations -> SMT-LIB text -> solver portfolio (DESIGN.md 2.10).

One query per obligation, run in a process pool through the solver CLIs
(z3-new 5.1, cvc5 1.0.3 --strings-exp, /usr/bin/z3 4.8.12).  In-process z3 is
used only to build and simplify terms, never to decide (its string solver can
hang without honouring timeouts).
"""
import os
import re
import subprocess
import tempfile
import time
import hashlib
from concurrent.futures import ThreadPoolExecutor

import z3

from .vals import *   # noqa

Z3NEW = "/opt/veriftools/pyvenv/bin/z3" if os.path.exists("/opt/veriftools/pyvenv/bin/z3") else "z3-new"
for cand in ("/usr/local/bin/z3-new", "/usr/bin/z3-new"):
    if os.path.exists(cand):
        Z3NEW = cand
Z3OLD = "/usr/bin/z3"
CVC5 = "/usr/bin/cvc5"


def _consts(t, cache):
    """Names of uninterpreted constants / functions in a term."""
    k = t.get_id()
    if k in cache:
        return cache[k]
    out = set()
    seen = set()
    stack = [t]
    while stack:
        x = stack.pop()
        i = x.get_id()
        if i in seen:
            continue
        seen.add(i)
        if z3.is_quantifier(x):
            stack.append(x.body())
            continue
        if z3.is_app(x):
            d = x.decl()
            if d.kind() == z3.Z3_OP_UNINTERPRETED:
                nm = d.name()
                if x.num_args() == 0:
                    out.add(nm)
                elif nm in ("ty", "cls_of"):
                    out.add(nm)
                else:
                    out.add("f:" + nm)
            stack.extend(x.children())
    cache[k] = out
    return out


UBIQUITOUS_PREFIX = ("DV_0", "DP_0", "LS_0", "f:u_", "f:deq", "env_self", "p_self")


def _strip_ubiq(cs):
    return set(c for c in cs if not c.startswith(UBIQUITOUS_PREFIX) and c not in ("ty", "cls_of"))


def relevant_assumptions(assumptions, roots, cache, hops=None):
    """Cone of influence: assumptions sharing symbols (transitively, or within `hops` rounds) with the roots.
    Dropping assumptions is always sound (the claim proved is stronger)."""
    if hops is not None:
        want = set()
        for r in roots:
            want |= _strip_ubiq(_consts(r, cache))
        infos = [(a, _consts(a, cache)) for a in assumptions]
        chosen = [False] * len(infos)
        for _ in range(hops):
            new = set()
            for i, (a, cs) in enumerate(infos):
                if chosen[i]:
                    continue
                core = _strip_ubiq(cs)
                if (core & want) or (not core and not cs):
                    chosen[i] = True
                    new |= core
            if not (new - want):
                break
            want |= new
        return [a for (a, _), c in zip(infos, chosen) if c]
    want = set()
    for r in roots:
        want |= _consts(r, cache)
    infos = [(a, _consts(a, cache)) for a in assumptions]
    chosen = [False] * len(infos)
    changed = True
    while changed:
        changed = False
        for i, (a, cs) in enumerate(infos):
            if chosen[i]:
                continue
            if not cs:
                chosen[i] = True
                continue
            core = cs - {"ty", "cls_of"}
            hit = (core & want) if core else (cs & want)
            if hit:
                chosen[i] = True
                new = cs - want
                if new:
                    want |= new
                    changed = True
    return [a for (a, _), c in zip(infos, chosen) if c]


_simp_cache = {}


def simp_cached(f):
    k = f.get_id()
    r = _simp_cache.get(k)
    if r is None:
        r = z3.simplify(f, pull_cheap_ite=True, ite_extra_rules=True, elim_and=False)
        _simp_cache[k] = r
        _keep.append(f)
    return r


_keep = []


def to_smt2(formulas, get_values=None, logic="ALL"):
    s = z3.Solver()
    for f in formulas:
        g = simp_cached(f)
        if z3.is_true(g):
            continue
        s.add(g)
    txt = s.to_smt2()
    txt = txt.replace("(check-sat)", "")
    head = "(set-logic %s)\n" % logic
    tail = "(check-sat)\n"
    if get_values:
        head = "(set-option :produce-models true)\n" + head
        tail += "(get-value (%s))\n" % " ".join(get_values)
    return head + txt + tail


def _fix_for_cvc5(txt):
    txt = txt.replace("seq.nth_i", "seq.nth").replace("seq.nth_u", "seq.nth")
    return txt


def run_solver(which, path, timeout_s):
    t0 = time.time()
    if which == "z3new":
        cmd = [Z3NEW, "-smt2", "-T:%d" % max(1, int(timeout_s)), path]
    elif which == "z3old":
        cmd = [Z3OLD, "-smt2", "-T:%d" % max(1, int(timeout_s)), path]
    else:
        cmd = [CVC5, "--strings-exp", "--strings-model-max-len=4000000", "--tlimit=%d" % int(timeout_s * 1000), path]
    try:
        p = subprocess.run(cmd, stdout=subprocess.PIPE, stderr=subprocess.STDOUT, timeout=timeout_s + 5)
        out = p.stdout.decode("utf-8", "replace")
    except subprocess.TimeoutExpired:
        return "timeout", "", time.time() - t0
    first = out.strip().split("\n")[0].strip() if out.strip() else ""
    if first in ("sat", "unsat", "unknown"):
        return first, out, time.time() - t0
    if "timeout" in out:
        return "timeout", out, time.time() - t0
    return "error", out, time.time() - t0


class QueryResult(object):
    def __init__(self):
        self.status = None      # 'unsat' | 'sat' | 'unknown'
        self.solver = None
        self.time = 0.0
        self.log = []
        self.model_text = None
        self.smt_path = None


def decide(smt_text, workdir, name, timeout_s=20, order=("z3new", "cvc5", "z3old"), keep=False, both=False):
    """Run the portfolio on one query text."""
    os.makedirs(workdir, exist_ok=True)
    h = hashlib.sha1(name.encode()).hexdigest()[:12]
    p1 = os.path.join(workdir, h + ".smt2")
    p2 = os.path.join(workdir, h + ".cvc5.smt2")
    with open(p1, "w") as f:
        f.write(smt_text)
    with open(p2, "w") as f:
        f.write(_fix_for_cvc5(smt_text))
    res = QueryResult()
    res.smt_path = p1
    verdicts = {}
    for which in order:
        st, out, dt = run_solver(which, p2 if which == "cvc5" else p1, timeout_s)
        res.log.append((which, st, round(dt, 3)))
        res.time += dt
        if st in ("sat", "unsat"):
            verdicts[which] = st
            if res.status is None:
                res.status, res.solver = st, which
                if st == "sat":
                    res.model_text = out
            if not both:
                break
    if len(set(verdicts.values())) > 1:
        res.status = "conflict"
    if res.status is None:
        res.status = "unknown"
    if not keep:
        for p in (p1, p2):
            try:
                os.unlink(p)
            except OSError:
                pass
    return res


_STR_KINDS = None
_quant_cache = {}


def _has_quantifier(t):
    k = t.get_id()
    if k in _quant_cache:
        return _quant_cache[k]
    found = False
    stack, seen = [t], set()
    while stack:
        x = stack.pop()
        if x.get_id() in seen:
            continue
        seen.add(x.get_id())
        if z3.is_quantifier(x):
            found = True
            break
        if z3.is_app(x):
            stack.extend(x.children())
    _quant_cache[k] = found
    return found


def abstract_strings(formulas, abstract_quantifiers=False):
    """Replace every maximal sub-term whose top symbol is a string-theory operation over String arguments by a
    fresh constant (consistently).  Sound for refutation-free use: unsat of the result implies unsat of the input."""
    global _STR_KINDS
    if _STR_KINDS is None:
        names = ["Z3_OP_SEQ_CONTAINS", "Z3_OP_SEQ_REPLACE", "Z3_OP_SEQ_REPLACE_RE", "Z3_OP_SEQ_REPLACE_RE_ALL",
                 "Z3_OP_SEQ_REPLACE_ALL", "Z3_OP_SEQ_INDEX", "Z3_OP_SEQ_LAST_INDEX", "Z3_OP_SEQ_IN_RE", "Z3_OP_STR_TO_INT",
                 "Z3_OP_INT_TO_STR", "Z3_OP_STRING_LT", "Z3_OP_STRING_LE", "Z3_OP_SEQ_PREFIX", "Z3_OP_SEQ_SUFFIX",
                 "Z3_OP_SEQ_EXTRACT", "Z3_OP_SEQ_AT", "Z3_OP_SEQ_CONCAT", "Z3_OP_SEQ_LENGTH", "Z3_OP_STRING_UBVTOS",
                 "Z3_OP_STR_TO_CODE", "Z3_OP_STR_FROM_CODE"]
        _STR_KINDS = set(getattr(z3, n) for n in names if hasattr(z3, n))
    strsort = z3.StringSort()
    table = {}
    subst = []

    def is_string_op(x):
        if not z3.is_app(x) or x.decl().kind() not in _STR_KINDS:
            return False
        if x.sort() == strsort:
            return True
        return any(c.sort() == strsort for c in x.children())

    seen = set()

    def walk(x):
        i = x.get_id()
        if i in seen:
            return
        seen.add(i)
        if z3.is_quantifier(x):
            if abstract_quantifiers:
                if i not in table:
                    c = z3.Const("quantabs!%d" % len(table), z3.BoolSort())
                    table[i] = c
                    subst.append((x, c))
                return
            walk(x.body())
            return
        if is_string_op(x):
            if i not in table:
                c = z3.Const("strabs!%d" % len(table), x.sort())
                table[i] = c
                subst.append((x, c))
            return
        if z3.is_app(x):
            for ch in x.children():
                walk(ch)
    for f in formulas:
        walk(f)
    if not subst:
        return list(formulas)
    return [z3.substitute(f, *subst) for f in formulas]


def build_query(ex, o, cache, get_values=None, hops=None):
    roots = [o.pc, o.goal]
    assumptions = relevant_assumptions(ex.assumptions[:o.nassume], roots, cache, hops)
    if o.expect == "sat":
        fs = assumptions + [o.pc, o.goal]
    else:
        fs = assumptions + [o.pc, z3.Not(o.goal)]
    return to_smt2(fs, get_values), len(assumptions)


def discharge_all(ex, obligations, workdir, timeout_s=20, jobs=16, both=False, get_values=None, progress=None, order=None, abstract_first=True):
    """-> dict obligation id -> QueryResult  (status 'unsat' means discharged for expect='unsat')."""
    cache = {}
    texts = []
    for o in obligations:
        g = simp(o.goal)
        pc = simp(o.pc)
        if o.expect == "unsat" and (z3.is_true(g) or z3.is_false(pc)):
            r = QueryResult()
            r.status, r.solver = "unsat", "simplifier"
            texts.append((o, None, r))
            continue
        txt, n = build_query(ex, o, cache, get_values)
        pre_txt = None
        if o.kind == "frame":
            # frame goals are pure array reasoning: first try without the path condition (stronger claim)
            pre_txt = to_smt2([z3.Not(o.goal)], None)
        abs_txt = None
        if o.expect == "unsat" and abstract_first:
            try:
                asm = relevant_assumptions(ex.assumptions[:o.nassume], [o.pc, o.goal], cache)
                fs0 = asm + [o.pc, z3.Not(o.goal)]
                fs = abstract_strings(fs0)
                if any(not a.eq(b_) for a, b_ in zip(fs0, fs)):
                    abs_txt = to_smt2(fs, None)
            except Exception:
                abs_txt = None
        texts.append((o, txt, (pre_txt, abs_txt)))
    results = {}

    def work(item):
        o, txt, pre = item
        if isinstance(pre, QueryResult):
            return o, pre
        pre, abs_txt = pre
        if pre is not None:
            r0 = decide(pre, workdir, o.id + "#nopc", timeout_s=min(timeout_s, 10), order=("z3new",), keep=False)
            if r0.status == "unsat":
                r0.solver = r0.solver + "(no-pc)"
                return o, r0
        if abs_txt is not None:
            # string theory abstracted away first (sound for unsat): most obligations of string-handling units are
            # about the heap / arithmetic and only drag the strings along in their path condition
            r0 = decide(abs_txt, workdir, o.id + "#nostr", timeout_s=min(timeout_s, 30), order=("z3new",), keep=False)
            if r0.status == "unsat":
                r0.solver = r0.solver + "(strings-abstracted)"
                return o, r0
        return o, decide(txt, workdir, o.id, timeout_s=timeout_s, both=both, keep=False,
                         order=tuple(order) if order else ("z3new", "cvc5", "z3old"))
    with ThreadPoolExecutor(max_workers=jobs) as pool:
        for o, r in pool.map(work, texts):
            results[o.id] = r
            o.result = r
            if progress:
                progress(o, r)
    # second chance (1): abstract the string theory away.  Every maximal sub-term built by a string operation is
    # replaced by a fresh constant of its sort (the same term by the same constant).  The abstracted formula has at
    # least the models of the original, so `unsat` carries over; `sat` of the abstraction means nothing.
    retry = []
    for o in obligations:
        r = results.get(o.id)
        if r is not None and o.expect == "unsat" and r.status == "unknown":
            try:
                asm = relevant_assumptions(ex.assumptions[:o.nassume], [o.pc, o.goal], cache)
                asm = [a_ for a_ in asm if not _has_quantifier(a_)]       # and without quantified hypotheses
                fs = abstract_strings(asm + [o.pc, z3.Not(o.goal)], abstract_quantifiers=True)
                retry.append((o, to_smt2(fs, None)))
            except Exception:
                continue
    if retry:
        def work1(item):
            o, txt = item
            return o, decide(txt, workdir, o.id + "#nostr", timeout_s=timeout_s, order=("z3new", "z3old"), keep=False)
        with ThreadPoolExecutor(max_workers=jobs) as pool:
            for o, r2 in pool.map(work1, retry):
                old = results[o.id]
                old.log = list(old.log) + [("nostr:%s" % w, st_, dt) for (w, st_, dt) in r2.log]
                old.time += r2.time
                if r2.status == "unsat":
                    old.status, old.solver = "unsat", (r2.solver or "") + "(strings-abstracted)"
    # second chance (2) for undecided proof obligations: fewer hypotheses (cone of influence cut at 1, then 2 hops).
    # Dropping hypotheses is sound for `unsat`; a `sat` of the reduced query means nothing and is ignored.
    for hops in (1,):
        retry = []
        for o in obligations:
            r = results.get(o.id)
            if r is not None and o.expect == "unsat" and r.status == "unknown":
                try:
                    txt, n = build_query(ex, o, cache, None, hops)
                except Exception:
                    continue
                retry.append((o, txt))
        if not retry:
            break

        def work2(item):
            o, txt = item
            return o, decide(txt, workdir, o.id + "#hops%d" % hops, timeout_s=timeout_s, keep=False, order=("z3new", "cvc5"))
        with ThreadPoolExecutor(max_workers=jobs) as pool:
            for o, r2 in pool.map(work2, retry):
                old = results[o.id]
                old.log = list(old.log) + [("hops%d:%s" % (hops, w), st_, dt) for (w, st_, dt) in r2.log]
                old.time += r2.time
                if r2.status == "unsat":
                    old.status, old.solver = "unsat", (r2.solver or "") + "(coi%d)" % hops
    return results


# --------------------------------------------------------------------------
# model parsing (get-value output)
# --------------------------------------------------------------------------

def parse_sexpr(s):
    toks = re.findall(r'"(?:[^"]|"")*"|\(|\)|[^\s()]+', s)
    pos = [0]

    def rd():
        t = toks[pos[0]]
        pos[0] += 1
        if t == "(":
            lst = []
            while toks[pos[0]] != ")":
                lst.append(rd())
            pos[0] += 1
            return lst
        return t
    out = []
    while pos[0] < len(toks):
        out.append(rd())
    return out


def smt_string_to_py(tok):
    s = tok[1:-1].replace('""', '"')

    def rep(m):
        return chr(int(m.group(1) or m.group(2), 16))
    return re.sub(r"\\u\{([0-9a-fA-F]+)\}|\\u([0-9a-fA-F]{4})", rep, s)


def val_to_py(x):
    """Parsed s-expression of a Val -> python value (refs become ('ref', n))."""
    if x == "VNone":
        return None
    if x == "VUnbound":
        return ("unbound",)
    if isinstance(x, list):
        h = x[0]
        if h == "VBool":
            return x[1] == "true"
        if h == "VInt":
            return _num(x[1])
        if h == "VFloat":
            return float(_num(x[1]))
        if h == "VStr":
            return smt_string_to_py(x[1])
        if h == "VRef":
            return ("ref", _num(x[1]))
        if h == "VFn":
            return ("fn", _num(x[1]))
        if h == "VOpq":
            return ("opq", _num(x[1]))
    return ("?", x)


def _num(x):
    if isinstance(x, list):
        if x[0] == "-":
            return -_num(x[1])
        if x[0] == "/":
            return _num(x[1]) / _num(x[2])
        if x[0] == "to_real":
            return _num(x[1])
    try:
        return int(x)
    except ValueError:
        return float(x)
