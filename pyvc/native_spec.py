"""
pyvc.native_spec -- the spec-language functions evaluated *concretely* (no z3).

The same clause text that the verifier turns into formulas is evaluated by
CPython here, against the real functions, for (a) replaying counterexamples,
(b) the contract sanity samples and (c) the bounded stand-ins.  Pure stdlib,
so it runs under /venv/bin/python as well as python3-vt.
"""
import ast
import copy
import json
import re


def implies(a, b):
    return (not a) or bool(b)


def iff(a, b):
    return bool(a) == bool(b)


def ite(c, a, b):
    return a if c else b


ENV = {
    "implies": implies, "iff": iff, "ite": ite,
    "isdict": lambda x: isinstance(x, dict), "islist": lambda x: isinstance(x, list),
    "istuple": lambda x: isinstance(x, tuple),
    "isstr": lambda x: isinstance(x, str), "isint": lambda x: isinstance(x, int) and not isinstance(x, bool),
    "isbool": lambda x: isinstance(x, bool), "isfloat": lambda x: isinstance(x, float),
    "istrue": lambda x: bool(x),
    "isnum": lambda x: isinstance(x, (int, float)) and not isinstance(x, bool),
    "isnone": lambda x: x is None, "iscallable": callable,
    "isjson": lambda x: _isjson(x),
    "haskey": lambda d, k: k in d,
    "keys_exactly": lambda d, *ks: isinstance(d, dict) and set(d.keys()) == set(ks),
    "keys_subset": lambda d, *ks: isinstance(d, dict) and set(d.keys()) <= set(ks),
    "re_search": lambda p, s: re.search(p, s) is not None,
    "re_full": lambda p, s: re.fullmatch(p, s) is not None,
    "same": lambda a, b: a is b or (type(a) in (int, str, bool, float, type(None)) and type(a) is type(b) and a == b),
    "content_eq": lambda a, b: type(a) is type(b) and a == b,
    "dumps": lambda x: json.dumps(x),
    "strlen": len, "seqlen": len,
    "is_decimal_str": lambda s: isinstance(s, str) and re.fullmatch("[0-9]+", s) is not None,
    "str_to_int": lambda s: int(s), "int_to_str": lambda i: str(i),
    "lower_ascii": lambda s: s.lower(),
    "to_real": float, "real": float,
    "trunc": lambda x: int(x),
    "upow": lambda b, k: b ** k,
    "list_eq": lambda l, *xs: list(l) == list(xs),
    "fresh_ref": lambda x: True,
    "forall": lambda f, *a: True,      # quantified clauses are not evaluated natively (reported as skipped)
    "exists": lambda f, *a: True,
}


def _isjson(x, depth=0):
    if depth > 50:
        return False
    if x is None or isinstance(x, (bool, int, float, str)):
        return True
    if isinstance(x, list):
        return all(_isjson(y, depth + 1) for y in x)
    if isinstance(x, dict):
        return all(isinstance(k, str) and _isjson(v, depth + 1) for k, v in x.items())
    return False


class _OldRewriter(ast.NodeTransformer):
    def __init__(self):
        self.olds = []

    def visit_Call(self, node):
        if isinstance(node.func, ast.Name) and node.func.id == "old":
            name = "__old_%d" % len(self.olds)
            self.olds.append((name, node.args[0]))
            return ast.copy_location(ast.Name(id=name, ctx=ast.Load()), node)
        return self.generic_visit(node)


NATIVE_SKIP = {"unchanged", "heap_unchanged", "at_snapshot", "ts", "forall", "exists", "is_exc", "fresh_ref"}


def uses_skipped(text):
    try:
        tree = ast.parse(text.strip(), mode="eval")
    except SyntaxError:
        return True
    for n in ast.walk(tree):
        if isinstance(n, ast.Call) and isinstance(n.func, ast.Name) and n.func.id in NATIVE_SKIP:
            return True
    return False


def eval_clause(text, env, old_env=None, extra=None):
    """Evaluate one clause natively.  `old(e)` is evaluated in old_env (deep copies taken before the call)."""
    tree = ast.parse(text.strip(), mode="eval")
    rw = _OldRewriter()
    tree = rw.visit(tree)
    ast.fix_missing_locations(tree)
    scope = dict(ENV)
    if extra:
        scope.update(extra)
    scope.update(env)
    for name, expr in rw.olds:
        oscope = dict(ENV)
        if extra:
            oscope.update(extra)
        oscope.update(old_env if old_env is not None else env)
        scope[name] = eval(compile(ast.Expression(body=expr), "<old>", "eval"), oscope)
    return eval(compile(tree, "<clause>", "eval"), scope)


def snapshot(env):
    out = {}
    for k, v in env.items():
        try:
            out[k] = copy.deepcopy(v)
        except Exception:
            out[k] = v
    return out
