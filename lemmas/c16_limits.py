"""C16: the quota constants, read from the modules that enforce them on every run."""
import asl_workflow_engine.state_engine as se
import asl_workflow_engine.task_dispatcher as td


def limits_agree():
    assert se.MAX_DATA_LENGTH == 262144, "state-output-limit"
    assert td.MAX_DATA_LENGTH == 262144, "task-reply-limit"
    assert se.MAX_DATA_LENGTH == td.MAX_DATA_LENGTH, "limits-agree"
    assert se.MAX_EXECUTION_HISTORY_LENGTH == 25000, "history-limit"
    assert se.MAX_STATE_MACHINE_LENGTH == 1048576, "definition-limit"
