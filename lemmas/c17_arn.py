"""
C17 lemmas: small functions in the verified subset that call the REAL arn
functions (inlined from /repo on every run) and assert the round-trip facts.
"""
from asl_workflow_engine.arn import create_arn, parse_arn


def mint_parse_state_machine(name, region, account):
    """For every accepted name: the state machine ARN splits back into its parts and re-creates itself."""
    a = create_arn(service="states", region=region, account=account,
                   resource_type="stateMachine", resource=name)
    assert a == "arn:aws:states:" + region + ":" + account + ":stateMachine:" + name, "format"
    p = parse_arn(a)
    assert p["arn"] == "arn", "arn"
    assert p["partition"] == "aws", "partition"
    assert p["service"] == "states", "service"
    assert p["region"] == region, "region"
    assert p["account"] == account, "account"
    assert p["resource_type"] == "stateMachine", "resource_type"
    assert p["resource"] == name, "resource"
    assert create_arn(p) == a, "recreate"
