"""
C08 lemmas: what the RFC 3339 grammar implies about the shape of the end of a timestamp.  Pure string
facts (no repository code): they let the parser's obligations be stated over the fixed-length tail, without
the variable-length fraction in the same query.
"""


def tail_numoffset(s, sign):
    assert len(s) >= 25, "length"
    assert s[-6] == sign, "sign"
    # (that s[-5:-3] is two digits is true but left undecided by both solvers; not claimed)
    assert s[-3] == ":", "colon"
    assert re_full("[0-9]{2}", s[-2:]), "minutes-digits"
    assert re_full("[0-9]", s[0]), "starts-with-digit"


def tail_zulu(s):
    assert len(s) >= 20, "length"
    assert s[-1] == "Z", "z"
    assert re_full("[0-9]", s[0]), "starts-with-digit"
