"""
Contracts for asl_workflow_engine/state_engine.py: externals, ghost state, StateEngine methods.

Ghost state (DESIGN.md 2.4) -- one set of symbolic variables threaded through every unit:

  n_pub      Int   number of EventDispatcher.publish calls
  pub_event  Val   the event object passed to the last publish
  pub_heap   Heap  the heap at the moment of the last publish (what was serialised)
  pub_shared Bool  use_shared_queue of the last publish
  n_ack      Int   number of EventDispatcher.acknowledge calls
  ack_id     Val   id passed to the last acknowledge
  issued     Bool  "a consequence of the current event has been handed over"
  n_bcast    Int   number of EventDispatcher.broadcast calls
  bcast_subject Str, bcast_msg Val, bcast_heap Heap
  n_hist     Int   number of history events recorded through update_execution_history
  hist_type  Str   type of the last one;  hist_details Val, hist_heap Heap
  n_timer    Int   set_timeout calls;  timer_cb Val, timer_ms Real
  n_sfn      Int   task_dispatcher.handle_sfn_response calls
"""

SE = "asl_workflow_engine/state_engine.py::"

MAX_DATA_LENGTH = 262144

# an event as the engine handles it: {"data": <json>, "context": {"State": {...,"Name"}, "Execution": {"Id"}, ...}}
WF_EVENT = [
    "isdict(event)", "haskey(event, 'data')", "haskey(event, 'context')",
    "isdict(event['context'])", "haskey(event['context'], 'State')", "haskey(event['context'], 'Execution')",
    "isdict(event['context']['State'])", "haskey(event['context']['State'], 'Name')",
    "isdict(event['context']['Execution'])", "haskey(event['context']['Execution'], 'Id')",
    "isstr(event['context']['Execution']['Id'])",
    # tree shape: the four dicts are distinct objects
    "not same(event, event['context'])", "not same(event, event['context']['State'])",
    "not same(event, event['context']['Execution'])", "not same(event['context'], event['context']['State'])",
    "not same(event['context'], event['context']['Execution'])",
    "not same(event['context']['State'], event['context']['Execution'])",
]
WF_SELF = [
    "isdict(self.executions)", "isdict(self.execution_history)", "isdict(self.branch_metadata)",
    "isobj(self.task_dispatcher)", "isdict(self.task_dispatcher.cancellers)",
    "isdict(self.task_dispatcher.pending_requests)",
    "not same(self.executions, self.execution_history)",
]


def hist_is_list(arn_expr):
    """type invariant of the history store: every entry is a list (so it cannot alias a dict)"""
    return "implies(%s in self.execution_history, islist(self.execution_history[%s]))" % (arn_expr, arn_expr)

# the engine's own objects are not the event's objects
SEP_SELF_EVENT = [
    "not same(self, event)", "not same(self, event['context'])", "not same(self, event['context']['State'])",
    "not same(self, event['context']['Execution'])",
] + ["not same(self.%s, %s)" % (a, b) for a in ("executions", "execution_history", "branch_metadata")
     for b in ("event", "event['context']", "event['context']['State']", "event['context']['Execution']")]


def register(reg, repo):
    reg.ghost_const = {"cur_id"}          # the id of the event being handled: never changes during a handling
    for g, s in (("n_pub", "int"), ("pub_event", "val"), ("pub_heap", "heap"), ("pub_shared", "bool"),
                 ("n_ack", "int"), ("ack_id", "val"), ("issued", "bool"),
                 ("n_bcast", "int"), ("bcast_subject", "str"), ("bcast_msg", "val"), ("bcast_heap", "heap"),
                 ("n_hist", "int"), ("hist_type", "str"), ("hist_details", "val"), ("hist_heap", "heap"),
                 ("hist_arn", "val"),
                 ("n_timer", "int"), ("timer_cb", "val"), ("timer_ms", "val"),
                 ("n_sfn", "int"), ("n_cancel", "int"), ("n_exec_task", "int"),
                 ("n_end", "int"), ("n_term", "int"), ("n_herr", "int"), ("herr_type", "val"),
                 ("herr_msg", "val"), ("herr_state", "val"), ("n_collect", "int"), ("n_check_pending", "int"),
                 ("n_rmcanceller", "int"), ("n_setcanceller", "int"),
                 ("acked", "bool"), ("held", "bool"), ("cont", "bool"), ("cur_id", "val"), ("released", "bool")):
        reg.ghost(g, s)

    # ---- dropped effects: arguments are still evaluated (DESIGN 2.2)
    reg.external("self.logger.*", ["msg"], modifies=None, result_type="none")
    reg.external("self.execution_metrics[].*", ["labels", "value"], modifies=None, result_type="none")
    reg.external("opentracing.*", ["a", "b", "c"], modifies=None, result_type="fn",
                 assumes=["OpenTracing calls have no effect on engine state and do not raise (A2)"])
    reg.external("span_context", ["fmt", "carrier", "logger"], modifies=None, result_type="fn")
    reg.external("inject_span", ["fmt", "span", "logger"], modifies=None, fresh_result="dict")
    reg.external("scope.span", None)

    # ---- EventDispatcher
    reg.external("self.event_dispatcher.publish", ["item", "threadsafe", "start_execution", "use_shared_queue"],
                 modifies=None, result_type="none",
                 ghost={"n_pub": "n_pub + 1", "pub_event": "item", "pub_heap": "__heap__", "issued": "True",
                        "pub_shared": "use_shared_queue == True"},
                 assumes=["EventDispatcher.publish does not raise and does not modify the event (A2; its own "
                          "contract is checked under C19)"])
    reg.external("self.event_dispatcher.acknowledge", ["id"], modifies=None, result_type="none",
                 # C03-O1: an event is acknowledged only after its consequences have been handed over
                 requires=[("issued-before-ack", "issued")],
                 ghost={"n_ack": "n_ack + 1", "ack_id": "id", "acked": "acked or same(id, cur_id)"},
                 assumes=["EventDispatcher.acknowledge never raises (its broad except), checked under C03"])
    reg.external("self.event_dispatcher.broadcast", ["subject", "message", "carrier_properties"],
                 modifies=None, result_type="none",
                 ghost={"n_bcast": "n_bcast + 1", "bcast_subject": "subject", "bcast_msg": "message",
                        "bcast_heap": "__heap__"},
                 assumes=["EventDispatcher.broadcast does not raise (A2) -- load-bearing, see DESIGN C11"])
    reg.external("self.event_dispatcher.set_timeout", ["callback", "delay"], modifies=None, result_type="fn",
                 ghost={"n_timer": "n_timer + 1", "timer_cb": "callback", "timer_ms": "delay", "cont": "True"},
                 assumes=["a timer set with set_timeout fires once unless cleared (A3); its callback is the continuation "
                          "that owns the event id (each such callback is itself under the handler contract)"])

    # ---- stores (dict protocol + ttl): modelled as dicts, A2 for Redis
    reg.external("self.executions.set_ttl", ["key", "ttl"], modifies=None, result_type="none")
    reg.external("self.execution_history.set_ttl", ["key", "ttl"], modifies=None, result_type="none")

    # ---- update_execution_history: the history append (C09) as a callee contract
    reg.contract(
        SE + "StateEngine.update_execution_history",
        types={"self": "obj", "state_machine": "dict", "execution_arn": "any", "update_type": "str", "details": "dict"},
        requires=["isdict(self.executions)", "isdict(self.execution_history)",
                  "not same(self.executions, self.execution_history)", hist_is_list("execution_arn")],
        modifies=["self.executions", "self.execution_history",
                  ("self.execution_history[execution_arn]", "execution_arn in self.execution_history")],
        ghost={"n_hist": "n_hist + 1", "hist_type": "update_type", "hist_details": "details",
               "hist_heap": "__heap__", "hist_arn": "execution_arn"},
        ghost_modifies=[],
        # in normal operation (the record exists) only the history list is written: proved on the real body under C09
        ensures=[("record-store-kept", "implies(old(execution_arn in self.executions and not isnone(self.executions[execution_arn])), "
                                       "unchanged(self.executions))"),
                 ("express-untouched", "implies(old(state_machine.get('type')) == 'EXPRESS', unchanged(self.executions) and "
                                       "unchanged(self.execution_history))"),
                 ("history-store-kept", "implies(old(execution_arn in self.executions and not isnone(self.executions[execution_arn]) "
                                        "and execution_arn in self.execution_history), unchanged(self.execution_history) and "
                                        "islist(self.execution_history[execution_arn]))")],
        raises={})

    # ---- change_state (DESIGN A.2): C03 (publish iff no error), C07 (counter reset), C16 (limit boundary), C09
    reg.contract(
        SE + "StateEngine.change_state",
        types={"self": "obj", "state_machine": "dict", "state_type": "str", "next_state": "strnone", "event": "dict"},
        requires=WF_EVENT + WF_SELF + SEP_SELF_EVENT + ["isstr(event['context']['State']['Name'])",
                                                        hist_is_list("event['context']['Execution']['Id']")],
        fresh_result="tuple",
        modifies=["event['context']['State']", "self.executions", "self.execution_history",
                  ("self.execution_history[event['context']['Execution']['Id']]",
                   "event['context']['Execution']['Id'] in self.execution_history")],
        ensures=[
            ("pair", "seqlen(result) == 2"),
            ("missing-next", "implies(isnone(next_state), result[0] == 'States.Runtime' and n_pub == old(n_pub) "
                             "and n_hist == old(n_hist) and unchanged(event['context']['State']))"),
            ("C16:over-limit", "implies(not isnone(next_state) and old(strlen(dumps(event['data']))) > 262144, "
                           "result[0] == 'States.DataLimitExceeded' and n_pub == old(n_pub) and n_hist == old(n_hist) "
                           "and unchanged(event['context']['State']))"),
            # C16: exactly at the limit is accepted
            ("C16:at-limit-accepted", "implies(not isnone(next_state) and old(strlen(dumps(event['data']))) <= 262144, "
                                  "isnone(result[0]) and isnone(result[1]))"),
            ("error-is-string", "implies(not isnone(result[0]), isstr(result[0]) and isstr(result[1]))"),
            ("publish-iff-ok", "iff(isnone(result[0]), n_pub == old(n_pub) + 1)"),
            ("publish-at-most-once", "n_pub == old(n_pub) or n_pub == old(n_pub) + 1"),
            ("published-this-event", "implies(isnone(result[0]), same(pub_event, event) and issued)"),
            ("issued-monotone", "implies(old(issued), issued)"),
            ("published-next-state", "implies(isnone(result[0]), "
                                     "at_snapshot('pub_heap', event['context']['State']['Name']) == next_state)"),
            # C07: retry counters do not leak into the next state
            ("C01,C07:counters-reset", "implies(isnone(result[0]), "
                               "not at_snapshot('pub_heap', 'RetryCount' in event['context']['State']) and "
                               "not at_snapshot('pub_heap', 'RetryTimeout' in event['context']['State']))"),
            ("published-data-untouched", "implies(isnone(result[0]), "
                                         "same(at_snapshot('pub_heap', event['data']), old(event['data'])))"),
            # C09: StateExited with the output, before the transition
            ("C09:exited-logged", "implies(isnone(result[0]), n_hist == old(n_hist) + 1 and "
                              "hist_type == state_type + 'StateExited' and "
                              "at_snapshot('hist_heap', hist_details['output']) == old(dumps(event['data'])) and "
                              "at_snapshot('hist_heap', hist_details['name']) == old(event['context']['State']['Name']))"),
            ("no-ack-no-bcast", "n_ack == old(n_ack) and n_bcast == old(n_bcast)"),
            ("event-shape-kept", "same(event['context'], old(event['context'])) and same(event['data'], old(event['data'])) "
                                 "and same(event['context']['State'], old(event['context']['State']))"),
        ],
        ghost_modifies=["n_pub", "pub_event", "pub_heap", "pub_shared", "issued", "n_hist", "hist_type",
                        "hist_details", "hist_heap", "hist_arn"],
        # publish is the last thing change_state does: what was published is the heap at return
        ghost_post={"pub_heap": "isnone(result[0])"},
        raises={})


SP = "asl_workflow_engine/state_engine_paths.py::"
NOTIFY = SE + "StateEngine.notify.<locals>."

# objects the JSON-data functions never write (region separation of data and engine structures, assumption A8)
ENGINE_OBJECTS = ["event", "context", "context['State']", "context['Execution']", "state", "self",
                  "self.executions", "self.execution_history", "self.branch_metadata", "state_machine", "ASL",
                  "self.task_dispatcher", "self.task_dispatcher.cancellers", "self.task_dispatcher.pending_requests"]

# environment of the closures nested in StateEngine.notify (DESIGN 2.6): what notify has established
NOTIFY_ENV = {"self": "obj", "event": "dict", "id": "str", "redelivered": "any", "context": "dict", "data": "json",
              "state": "dict", "state_type": "str", "state_machine": "dict", "ASL": "dict", "current_state": "str",
              "state_machine_type": "any", "execution_arn": "str", "ctx_state_machine": "dict",
              "state_machine_arn": "str", "current_state_machine": "dict", "state_path": "list"}
NOTIFY_ENV_PRE = WF_EVENT + WF_SELF + SEP_SELF_EVENT + [
    "same(context, event['context'])",
    "isdict(state)", "not same(state, event)", "not same(state, context)", "not same(state, context['State'])",
    "not same(state, context['Execution'])", "not same(state, self)",
    hist_is_list("event['context']['Execution']['Id']"),
    "isstr(event['context']['State']['Name'])",
    "not isnone(id)",
    # field types of a validator-accepted state (C18 supplies these)
    "implies(haskey(state, 'End'), isbool(state['End']))",
    "implies(haskey(state, 'Next'), isstr(state['Next']))",
    # type invariant of stored state machine records (the API validates loggingConfiguration, C10)
    "implies(haskey(state_machine, 'loggingConfiguration'), isdict(state_machine['loggingConfiguration']))",
]


def register_paths_abstract(reg):
    """Callers' view of the path functions: deterministic functions named AP / EPT / RP (C01, C07)."""
    reg.contract(SP + "apply_path", pure=True, ensures=[("is-AP", "same(result, AP(input, context, path))")],
                 raises={"PathMatchFailure": None, "ParameterPathFailure": "isstr(path) and not path.startswith('$')"},
                 modifies=None,
                 assumes=["apply_path is a deterministic function of its arguments (named AP); its laws are C12",
                          "jsonpath.jsonpath raises no exception (it swallows evaluation errors and returns False), "
                          "and $$.Task.Token in the context is a string: apply_path raises only PathMatchFailure / "
                          "ParameterPathFailure (checked on the real body under C12)"])
    reg.contract(SP + "apply_jsonpath", pure=True, ensures=[("is-AP", "same(result, AP(input, None, path))")],
                 raises={"PathMatchFailure": None}, modifies=None)
    reg.contract(SP + "evaluate_payload_template", pure=True,
                 ensures=[("is-EPT", "same(result, EPT(input, context, template))")],
                 raises={"IntrinsicFailure": None, "PathMatchFailure": None, "ParameterPathFailure": None,
                         "Exception*": None},
                 modifies=None,
                 assumes=["evaluate_payload_template is a deterministic function (named EPT); its laws are C13"])
    reg.contract(SP + "apply_resultpath", pure=True,
                 ensures=[("is-RP", "same(retval, RP(input, result, path))")],
                 raises={"ResultPathMatchFailure": None, "Exception*": None},
                 modifies="ALL", preserves="PROTECTED",
                 assumes=["apply_resultpath is a deterministic function (named RP) that writes only objects "
                          "reachable from its `input` argument (frame proved under C12); JSON data and engine "
                          "structures do not share objects (A8)"])


# what the recursive closures (handle_error / handle_terminal_state / collect_results) can do to the effect ghosts:
# publish, acknowledge, broadcast, child-execution replies, cancellations.  They never start a task, arm a timer
# or register a canceller for the CURRENT event, so cont / n_exec_task / n_timer / canc_* are outside their frame
# (checked as `frame/ghost-*` obligations when those closures are verified themselves).
RECURSIVE_EFFECTS = ["n_pub", "pub_event", "pub_heap", "pub_shared", "issued", "n_ack", "ack_id", "acked", "held",
                     "n_bcast", "bcast_subject", "bcast_msg", "bcast_heap", "n_sfn", "n_cancel", "n_rmcanceller",
                     "released"]


def register_notify_callees(reg):
    """Callee contracts for the mutually recursive closures of notify (DESIGN 2.6, A.4, A.5)."""
    for g, s in (("acked", "bool"), ("held", "bool"), ("cont", "bool"), ("cur_id", "val"),
                 ("term_event", "val"), ("term_heap", "heap"), ("term_type", "val"), ("term_id", "val"),
                 ("herr_heap", "heap")):
        reg.ghost(g, s)
    reg.contract(
        NOTIFY + "handle_error", env=NOTIFY_ENV,
        ghost={"n_herr": "n_herr + 1", "herr_type": "error_type", "herr_msg": "error_message",
               "herr_state": "state", "herr_heap": "__heap__"},
        ensures=[("issued", "issued"), ("ack-monotone", "implies(old(acked), acked)"),
                 ("held-monotone", "implies(old(held), held)"),
                 ("released-monotone", "implies(old(released), released)")],
        ghost_modifies=RECURSIVE_EFFECTS,
        modifies="ALL", raises={},
        assumes=["externals called by handle_error do not raise (A2)"])
    reg.contract(
        NOTIFY + "handle_terminal_state", env=NOTIFY_ENV,
        ghost={"n_term": "n_term + 1", "term_event": "event", "term_heap": "__heap__", "term_type": "state_type",
               "term_id": "id"},
        ensures=[("issued", "issued"),
                 ("handed-over", "isnone(id) or acked or held"),
                 ("ack-monotone", "implies(old(acked), acked)"),
                 ("held-monotone", "implies(old(held), held)"),
                 ("released-monotone", "implies(old(released), released)")],
        ghost_modifies=RECURSIVE_EFFECTS,
        modifies="ALL", raises={})


HANDLER_TYPESTATE = [
    # C03-O2: when the handler returns, its event has been acknowledged, or is held by a join, or a
    # continuation that owns it has been registered
    ("handed-over", "acked or held or cont"),
]
HANDLER_GHOST_INIT = {"cur_id": "id", "acked": "False", "held": "False", "cont": "False", "issued": "False",
                      "released": "False"}
