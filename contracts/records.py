"""
Contracts on the REAL bodies of the StateEngine methods that write the execution record, the history and the
notification: update_execution_history (C09), broadcast_notification (C11), start_execution / end_execution
(C02, C09, C11, C15).
"""
from pyvc.contracts import Contract, LoopContract
from contracts import engine as E

SE = E.SE

HISTORY_TYPES = ["ExecutionStarted", "ExecutionSucceeded", "ExecutionFailed"] + \
    [t + s for t in ("Pass", "Task", "Choice", "Wait", "Succeed", "Parallel", "Map") for s in ("StateEntered", "StateExited")] + \
    ["FailStateEntered", "TaskScheduled", "TaskSucceeded", "TaskFailed", "LambdaFunctionSucceeded", "LambdaFunctionFailed"]

ARN = "execution_arn"
HIST = "self.execution_history[execution_arn]"
APPENDED = ("(islist(%s) and seqlen(%s) == old(seqlen(%s)) + 1 and prefix_unchanged(%s, old(seqlen(%s))))"
            % (HIST, HIST, HIST, HIST, HIST))
LAST = "%s[seqlen(%s) - 1]" % (HIST, HIST)
UNTOUCHED = "(unchanged(self.execution_history) and unchanged(%s) and unchanged(self.executions))" % HIST


def update_execution_history_contract():
    return Contract(
        SE + "StateEngine.update_execution_history",
        types={"self": "obj", "state_machine": "dict", "execution_arn": "str", "update_type": "str", "details": "dict"},
        requires=["isdict(self.executions)", "isdict(self.execution_history)", "not same(self.executions, self.execution_history)",
                  "implies(haskey(state_machine, 'loggingConfiguration'), isdict(state_machine['loggingConfiguration']))",
                  # normal operation: the record and the history of this execution exist (the restart branch that
                  # re-creates them is outside this contract)
                  "execution_arn in self.executions", "not isnone(self.executions[execution_arn])",
                  "execution_arn in self.execution_history", "islist(%s)" % HIST,
                  "not same(%s, details)" % HIST, "not same(self.execution_history, details)"],
        ensures=[
            # C09: events are numbered 1..n, previousEventId = id - 1, appended at the end, earlier events untouched
            ("C09:append-or-nothing", "%s or %s" % (APPENDED, UNTOUCHED)),
            ("C09:numbering", "implies(%s, isdict(%s) and %s['id'] == old(seqlen(%s)) + 1 and %s['previousEventId'] == old(seqlen(%s)) "
                              "and %s['type'] == update_type)" % (APPENDED, LAST, LAST, HIST, LAST, HIST, LAST)),
            ("C09:timestamp-is-clock", "implies(%s, isnum(%s['timestamp']) and real(%s['timestamp']) == NOW() and NOW() >= old(NOW()))"
             % (APPENDED, LAST, LAST)),
            ("C09:details-attached", "implies(%s and 'StateEntered' in update_type, same(%s['stateEnteredEventDetails'], details))" % (APPENDED, LAST)),
            ("C09:details-attached-exit", "implies(%s and 'StateExited' in update_type and not ('StateEntered' in update_type), "
                                          "same(%s['stateExitedEventDetails'], details))" % (APPENDED, LAST)),
            # C09: EXPRESS executions store no history
            ("C09:express-stores-nothing", "implies(old(state_machine.get('type')) == 'EXPRESS', %s)" % UNTOUCHED),
            ("C09:recorded-types", "implies(old(state_machine.get('type')) != 'EXPRESS' and (%s), %s)"
             % (" or ".join("update_type == %r" % t for t in HISTORY_TYPES), APPENDED)),
        ],
        raises={},
        modifies=["self.execution_history[execution_arn]"])


# --------------------------------------------------------------------------------------------------------------
# broadcast_notification (C11)
# --------------------------------------------------------------------------------------------------------------
D = "execution_detail"
CW_KEYS = "'version', 'id', 'detail-type', 'source', 'account', 'time', 'region', 'resources', 'detail'"


def abstract_arn(reg):
    """Callers' view of the ARN functions (their string laws are C17): parse_arn yields a fresh dict with the seven
    fields or raises IndexError; create_arn yields a string."""
    K = "asl_workflow_engine/arn.py::"
    reg.contract(K + "parse_arn", types={"arn": "str"}, fresh_result="dict",
                 ensures=[("keys", "keys_exactly(result, 'arn', 'partition', 'service', 'region', 'account', 'resource', 'resource_type')"),
                          ("strings", "isstr(result['account']) and isstr(result['region']) and isstr(result['resource'])")],
                 raises={"IndexError": None}, modifies=None, pure=True)
    reg.contract(K + "create_arn", types={}, result_type="str", raises={}, modifies=None, pure=True,
                 assumes=["create_arn returns a string (format: C17)"])


def broadcast_notification_contract():
    return Contract(
        SE + "StateEngine.broadcast_notification",
        types={"self": "obj", "execution_arn": "str", "execution_detail": "dict", "context": "dict"},
        requires=["haskey(%s, 'startDate')" % D, "haskey(%s, 'stopDate')" % D, "haskey(%s, 'stateMachineArn')" % D,
                  "haskey(%s, 'status')" % D, "isstr(%s['stateMachineArn'])" % D, "isstr(%s['status'])" % D,
                  "isnone(%s['startDate']) or isnum(%s['startDate'])" % (D, D),
                  "isnone(%s['stopDate']) or isnum(%s['stopDate'])" % (D, D),
                  "not same(%s, context)" % D, "not same(self, %s)" % D],
        ensures=[
            # C11: each status change is published exactly once, to '<stateMachineArn>.<status>', in the CloudWatch shape
            ("C11:published-once", "n_bcast == old(n_bcast) + 1"),
            ("C11:subject", "bcast_subject == old(%s['stateMachineArn']) + '.' + old(%s['status'])" % (D, D)),
            ("C11:cloudwatch-shape", "at_snapshot('bcast_heap', keys_exactly(bcast_msg, %s))" % CW_KEYS),
            ("C11:detail-is-the-record", "same(at_snapshot('bcast_heap', bcast_msg['detail']), execution_detail)"),
            ("C11:source-and-type", "at_snapshot('bcast_heap', bcast_msg['source']) == 'aws.states' and "
                                    "at_snapshot('bcast_heap', bcast_msg['detail-type']) == 'Step Functions Execution Status Change'"),
            # ... with startDate / stopDate in milliseconds in the notification ...
            ("C11:start-in-millis", "implies(old(istrue(%s['startDate'])), at_snapshot('bcast_heap', %s['startDate']) == "
                                    "trunc(old(real(%s['startDate'])) * 1000))" % (D, D, D)),
            ("C11:stop-in-millis", "implies(old(istrue(%s['stopDate'])), at_snapshot('bcast_heap', %s['stopDate']) == "
                                   "trunc(old(real(%s['stopDate'])) * 1000))" % (D, D, D)),
            ("C11:null-stop-stays-null", "implies(old(isnone(%s['stopDate'])), at_snapshot('bcast_heap', isnone(%s['stopDate'])))" % (D, D)),
            ("C11:status-and-output-as-stored", "at_snapshot('bcast_heap', %s['status']) == old(%s['status'])" % (D, D)),
            # ... and publishing does not alter the stored record (which keeps epoch seconds)
            ("C11:record-restored", "unchanged(execution_detail)"),
        ],
        raises={"IndexError": None},
        xensures={"IndexError": [("C11:malformed-arn-publishes-nothing", "n_bcast == old(n_bcast) and unchanged(execution_detail)")]},
        modifies=None,
        assumes=["EventDispatcher.broadcast does not raise (A2): if it did, the record would be left in milliseconds (DESIGN C11)"])


# --------------------------------------------------------------------------------------------------------------
# start_execution / end_execution (C02, C09, C11, C15)
# --------------------------------------------------------------------------------------------------------------
EXEC_ARN = "event['context']['Execution']['Id']"
REC = "self.executions[%s]" % EXEC_ARN


def callees(reg):
    """Callee view of update_execution_history (engine.py), broadcast_notification and the dispatcher hook."""
    for g, t in (("n_bn", "int"), ("bn_detail", "val"), ("bn_heap", "heap"), ("bn_arn", "val"), ("bn_nsfn", "int"),
                 ("bn_nhist", "int"), ("sfn_detail", "val"), ("sfn_output", "val"), ("sfn_arn", "val")):
        reg.ghost(g, t)
    reg.contract(
        SE + "StateEngine.broadcast_notification",
        types={"self": "obj", "execution_arn": "str", "execution_detail": "dict", "context": "dict"},
        ghost={"n_bn": "n_bn + 1", "bn_detail": "execution_detail", "bn_heap": "__heap__", "bn_arn": "execution_arn",
               "bn_nsfn": "n_sfn", "bn_nhist": "n_hist"},
        ghost_modifies=["n_bcast", "bcast_subject", "bcast_msg", "bcast_heap"],
        ensures=[("record-restored", "unchanged(execution_detail)")],
        modifies=None, raises={},
        assumes=["execution ARNs handed to broadcast_notification have at least five ':' (so parse_arn does not raise): "
                 "they are minted by create_arn (C17)"])
    reg.external("self.task_dispatcher.handle_sfn_response", ["correlation_id", "input", "output", "detail"],
                 modifies="ALL", preserves="PROTECTED", result_type="none",
                 ghost={"n_sfn": "n_sfn + 1", "sfn_detail": "detail", "sfn_output": "output", "sfn_arn": "correlation_id"},
                 assumes=["handle_sfn_response completes a waiting parent task (its own obligations: C15) and leaves the "
                          "terminating execution's event, record and history alone (A8)"])


STD = "old(state_machine.get('type')) == 'STANDARD'"


def start_execution_contract():
    return Contract(
        SE + "StateEngine.start_execution",
        types={"self": "obj", "state_machine": "dict", "start_state": "any", "event": "dict"},
        requires=E.WF_EVENT[:11] + [
            "not same(event, event['context'])", "not same(event['context'], event['context']['State'])",
            "not same(event['context'], event['context']['Execution'])",
            "not same(event['context']['State'], event['context']['Execution'])",
            "isdict(self.executions)", "isdict(self.execution_history)", "not same(self.executions, self.execution_history)",
        ] + E.SEP_SELF_EVENT + [
            # an execution started through the API: name, id and state machine id are already in the context (the
            # low-level path that mints them is the ARN lemma of C17)
            "haskey(event['context'], 'StateMachine')", "isdict(event['context']['StateMachine'])",
            "haskey(event['context']['StateMachine'], 'Id')", "isstr(event['context']['StateMachine']['Id'])",
            "haskey(event['context']['Execution'], 'Name')", "isstr(event['context']['Execution']['Name'])",
            "implies(haskey(state_machine, 'loggingConfiguration'), isdict(state_machine['loggingConfiguration']))",
            E.hist_is_list(EXEC_ARN).replace("execution_arn", EXEC_ARN) if False else
            "implies(%s in self.execution_history, islist(self.execution_history[%s]))" % (EXEC_ARN, EXEC_ARN),
        ],
        ensures=[
            # C02: one RUNNING notification at start; the record is RUNNING with no output and no stop date
            ("C02,C11:one-running-notification", "n_bn == old(n_bn) + 1 and bn_arn == old(%s)" % EXEC_ARN),
            ("C02:running-shape", "at_snapshot('bn_heap', bn_detail['status']) == 'RUNNING' and "
                                  "at_snapshot('bn_heap', isnone(bn_detail['output'])) and "
                                  "at_snapshot('bn_heap', isnone(bn_detail['stopDate'])) and "
                                  "at_snapshot('bn_heap', isnum(bn_detail['startDate']))"),
            ("C02,C11:identity", "at_snapshot('bn_heap', bn_detail['executionArn']) == old(%s) and "
                                 "at_snapshot('bn_heap', bn_detail['stateMachineArn']) == old(event['context']['StateMachine']['Id']) and "
                                 "at_snapshot('bn_heap', bn_detail['name']) == old(event['context']['Execution']['Name']) and "
                                 "at_snapshot('bn_heap', isstr(bn_detail['input']))" % EXEC_ARN),
            ("C02:standard-stores-the-record", "implies(%s, old(%s) in self.executions and same(self.executions[old(%s)], bn_detail))"
             % (STD, EXEC_ARN, EXEC_ARN)),
            # C09: the history begins with ExecutionStarted carrying the input; EXPRESS stores nothing
            ("C09:starts-with-execution-started", "n_hist == old(n_hist) + 1 and hist_type == 'ExecutionStarted' and "
                                                  "same(hist_arn, old(%s)) and "
                                                  "at_snapshot('hist_heap', hist_details['input']) == at_snapshot('bn_heap', bn_detail['input'])" % EXEC_ARN),
            ("C09:history-reset-before-first-event", "implies(%s, at_snapshot('hist_heap', islist(self.execution_history[old(%s)]) and "
                                                     "seqlen(self.execution_history[old(%s)]) == 0))" % (STD, EXEC_ARN, EXEC_ARN)),
            ("C09:express-stores-nothing", "implies(old(state_machine.get('type')) == 'EXPRESS', "
                                           "unchanged(self.executions) and unchanged(self.execution_history))"),
            ("C09,C11:started-logged-before-notified", "bn_nhist == old(n_hist) + 1"),
            ("C03:start-state-set", "event['context']['State']['Name'] == start_state or same(event['context']['State']['Name'], start_state)"),
        ],
        raises={},
        modifies="ALL")


# the engine's in-band convention: the terminal data carries a truthy "Error" member <=> the execution failed
FAILED_IN = "old(isdict(event['data']) and istrue(event['data'].get('Error')))"
DET = "bn_detail"


def end_execution_contract():
    return Contract(
        SE + "StateEngine.end_execution",
        types={"self": "obj", "state_machine": "dict", "state_type": "str", "event": "dict"},
        requires=E.WF_EVENT + E.WF_SELF + E.SEP_SELF_EVENT + [
            "isstr(event['context']['State']['Name'])",
            "implies(%s in self.execution_history, islist(self.execution_history[%s]))" % (EXEC_ARN, EXEC_ARN),
            "implies(haskey(state_machine, 'loggingConfiguration'), isdict(state_machine['loggingConfiguration']))",
            "isdict(event['data']) or islist(event['data']) or isstr(event['data']) or isnum(event['data']) or "
            "isbool(event['data']) or isnone(event['data'])",
            "implies(isdict(event['data']), not same(event['data'], event) and not same(event['data'], event['context']) and "
            "not same(event['data'], self.executions) and not same(event['data'], self.execution_history) and "
            "not same(event['data'], self.branch_metadata) and not same(event['data'], event['context']['State']) and "
            "not same(event['data'], event['context']['Execution']))",
            # STANDARD executions have their record (created by start_execution, or re-created after a restart)
            "implies(state_machine.get('type') == 'STANDARD', %s in self.executions and isdict(%s) and "
            "haskey(%s, 'stateMachineArn') and isstr(%s['stateMachineArn']) and haskey(%s, 'startDate') and "
            "isnum(%s['startDate']) and haskey(%s, 'status') and not same(%s, event) and not same(%s, event['context']) "
            "and not same(%s, event['context']['State']) and not same(%s, event['context']['Execution']) and "
            "not same(%s, self.executions) and not same(%s, self.execution_history) and not same(%s, self.branch_metadata) and "
            "not same(%s, event['data']) and not same(%s, self) and not same(%s, self.task_dispatcher))"
            % ((EXEC_ARN,) + (REC,) * 16),
            # this contract covers STANDARD workflows (the EXPRESS branch synthesises the record from the ARN and
            # StartTime with string functions whose laws are C17 / C08; it is not under this contract)
            "state_machine.get('type') == 'STANDARD'",
            "%s in self.execution_history" % EXEC_ARN,
            # an Error member, when present, is an error NAME (a string) or null
            "implies(isdict(event['data']) and haskey(event['data'], 'Error'), isstr(event['data']['Error']) or isnone(event['data']['Error']))",
            "haskey(event['context']['Execution'], 'Input')",
        ],
        ensures=[
            # C02: exactly one terminal notification per terminal handling, after the record and history are final
            ("C02,C11:one-terminal-notification", "n_bn == old(n_bn) + 1 and bn_arn == old(%s)" % EXEC_ARN),
            ("C02:standard-notifies-the-stored-record", "implies(%s, same(%s, old(%s)))" % (STD, DET, REC)),
            # record shape: stopDate set iff terminal; output iff SUCCEEDED; error/cause iff FAILED
            ("C02:stop-date-set", "at_snapshot('bn_heap', isnum(%s['stopDate']))" % DET),
            ("C02:failed-shape", "implies(%s, at_snapshot('bn_heap', %s['status'] == 'FAILED' and isnone(%s['output']) and "
                                 "haskey(%s, 'error') and haskey(%s, 'cause')))" % (FAILED_IN, DET, DET, DET, DET)),
            ("C02:succeeded-shape", "implies(not %s, at_snapshot('bn_heap', %s['status'] == 'SUCCEEDED' and isstr(%s['output'])))"
             % (FAILED_IN, DET, DET)),
            ("C02:succeeded-has-no-error", "implies(not %s and not old(%s and haskey(%s, 'error')), "
                                           "at_snapshot('bn_heap', not haskey(%s, 'error')))" % (FAILED_IN, STD.replace("old(", "(").rstrip(")") + ")" if False else "state_machine.get('type') == 'STANDARD'", REC, DET)),
            ("C01,C02:error-name", "implies(%s and old(event['data'].get('Error')) != 'States.ExecutionTimeout', "
                                   "same(at_snapshot('bn_heap', %s['error']), old(event['data'].get('Error'))))" % (FAILED_IN, DET)),
            # C08: the engine's internal States.ExecutionTimeout is reported as States.Timeout
            ("C08:execution-timeout-reported-as-timeout", "implies(%s and old(event['data'].get('Error')) == 'States.ExecutionTimeout', "
                                                          "at_snapshot('bn_heap', %s['error']) == 'States.Timeout')" % (FAILED_IN, DET)),
            # C09 / C11: the last history event is the terminal event and agrees with the record
            ("C09,C11:terminal-event-failed", "implies(%s, hist_type == 'ExecutionFailed' and same(hist_arn, old(%s)) and "
                                              "same(at_snapshot('hist_heap', hist_details['error']), at_snapshot('bn_heap', %s['error'])) and "
                                              "same(at_snapshot('hist_heap', hist_details['cause']), at_snapshot('bn_heap', %s['cause'])))"
             % (FAILED_IN, EXEC_ARN, DET, DET)),
            ("C09,C11:terminal-event-succeeded", "implies(not %s, hist_type == 'ExecutionSucceeded' and same(hist_arn, old(%s)) and "
                                                 "at_snapshot('hist_heap', hist_details['output']) == at_snapshot('bn_heap', %s['output']))"
             % (FAILED_IN, EXEC_ARN, DET)),
            ("C09:one-terminal-event", "n_hist == old(n_hist) + (1 if %s else 2)" % FAILED_IN),
            ("C09,C11:logged-before-notified", "bn_nhist == n_hist"),
            # C15: a waiting parent task is completed on every terminal path, before the notification
            ("C15:parent-completed-before-notification", "n_sfn == old(n_sfn) + 1 and bn_nsfn == n_sfn and same(sfn_arn, old(%s)) "
                                                         "and same(sfn_detail, %s)" % (EXEC_ARN, DET)),
            # C03 (and with it C02/C11: left-over join state is what the heartbeat back-stop later fails): a successful end
            # releases the join state of the execution
            ("C02,C03,C11:success-releases-join-state", "implies(not %s, not (old(%s) in self.branch_metadata))" % (FAILED_IN, EXEC_ARN)),
            # C09: EXPRESS stores nothing
            ("C09:express-stores-nothing", "implies(old(state_machine.get('type')) != 'STANDARD', "
                                           "unchanged(self.executions) and unchanged(self.execution_history))"),
        ],
        raises={"ValueError": None, "IndexError": None, "TypeError": None, "AttributeError": None},
        xensures={},
        protected=["event", "event['context']", "event['context']['State']", "event['context']['Execution']", "self",
                   "self.executions", "self.execution_history", "self.branch_metadata", "state_machine", "self.task_dispatcher",
                   REC, "event['data']"],
        modifies="ALL",
        assumes=["exceptions from parse_rfc3339_datetime / parse_arn on the EXPRESS branch (malformed StartTime / ARN) are "
                 "allowed to escape; StartTime and the ARN are written by the engine itself (C08, C17)"])
