"""
Contracts on the REAL bodies of the StateEngine methods that write the execution record, the history and the
notification: update_execution_history (C09), broadcast_notification (C11), start_execution / end_execution
(C02, C09, C11, C15).
"""
from pyvc.contracts import Contract, LoopContract
from contracts import engine as E

SE = E.SE

HISTORY_TYPES = ["ExecutionStarted", "ExecutionSucceeded", "ExecutionFailed"] + \
    [t + s for t in ("Pass", "Task", "Choice", "Wait", "Succeed", "Parallel", "Map") for s in ("StateEntered", "StateExited")] + \
    ["FailStateEntered", "TaskScheduled", "TaskSucceeded", "TaskFailed", "LambdaFunctionSucceeded", "LambdaFunctionFailed"]

ARN = "execution_arn"
HIST = "self.execution_history[execution_arn]"
APPENDED = ("(islist(%s) and seqlen(%s) == old(seqlen(%s)) + 1 and prefix_unchanged(%s, old(seqlen(%s))))"
            % (HIST, HIST, HIST, HIST, HIST))
LAST = "%s[seqlen(%s) - 1]" % (HIST, HIST)
UNTOUCHED = "(unchanged(self.execution_history) and unchanged(%s) and unchanged(self.executions))" % HIST


def update_execution_history_contract():
    return Contract(
        SE + "StateEngine.update_execution_history",
        types={"self": "obj", "state_machine": "dict", "execution_arn": "str", "update_type": "str", "details": "dict"},
        requires=["isdict(self.executions)", "isdict(self.execution_history)", "not same(self.executions, self.execution_history)",
                  "implies(haskey(state_machine, 'loggingConfiguration'), isdict(state_machine['loggingConfiguration']))",
                  # normal operation: the record and the history of this execution exist (the restart branch that
                  # re-creates them is outside this contract)
                  "execution_arn in self.executions", "not isnone(self.executions[execution_arn])",
                  "execution_arn in self.execution_history", "islist(%s)" % HIST,
                  "not same(%s, details)" % HIST, "not same(self.execution_history, details)"],
        ensures=[
            # C09: events are numbered 1..n, previousEventId = id - 1, appended at the end, earlier events untouched
            ("C09:append-or-nothing", "%s or %s" % (APPENDED, UNTOUCHED)),
            ("C09:numbering", "implies(%s, isdict(%s) and %s['id'] == old(seqlen(%s)) + 1 and %s['previousEventId'] == old(seqlen(%s)) "
                              "and %s['type'] == update_type)" % (APPENDED, LAST, LAST, HIST, LAST, HIST, LAST)),
            ("C09:timestamp-is-clock", "implies(%s, isnum(%s['timestamp']) and real(%s['timestamp']) == NOW() and NOW() >= old(NOW()))"
             % (APPENDED, LAST, LAST)),
            ("C09:details-attached", "implies(%s and 'StateEntered' in update_type, same(%s['stateEnteredEventDetails'], details))" % (APPENDED, LAST)),
            ("C09:details-attached-exit", "implies(%s and 'StateExited' in update_type and not ('StateEntered' in update_type), "
                                          "same(%s['stateExitedEventDetails'], details))" % (APPENDED, LAST)),
            # C09: EXPRESS executions store no history
            ("C09:express-stores-nothing", "implies(old(state_machine.get('type')) == 'EXPRESS', %s)" % UNTOUCHED),
            ("C09:recorded-types", "implies(old(state_machine.get('type')) != 'EXPRESS' and (%s), %s)"
             % (" or ".join("update_type == %r" % t for t in HISTORY_TYPES), APPENDED)),
        ],
        raises={},
        modifies=["self.execution_history[execution_arn]"])
