"""
Contract of notify.<locals>.handle_error on its REAL body (C07; also the callee contract the handlers rely on,
so its `issued` / monotonicity / ghost-frame clauses are what C03 and C01 assume about it).

Bound: the Retry and Catch arrays have at most 3 entries each (loops unrolled with an unwinding obligation that
holds under that precondition); everything else -- error names, ErrorEquals sets of any length, counters,
intervals, rates, data -- is unbounded.
"""
from pyvc.contracts import Contract, LoopContract
from contracts import engine as E

K = 3

RULES_OK = []
for f in ("Retry", "Catch"):
    RULES_OK += [
        "seqlen(rule_list(state, %r)) <= %d" % (f, K),
    ]
    for i in range(K):
        r = "rule_list(state, %r)[%d]" % (f, i)
        RULES_OK += [
            # validator-accepted retriers/catchers: objects with a non-empty ErrorEquals array of strings (C18)
            "implies(seqlen(rule_list(state, %r)) > %d, isdict(%s) and haskey(%s, 'ErrorEquals') and islist(%s['ErrorEquals']) "
            "and seqlen(%s['ErrorEquals']) >= 1 and not same(%s, context['State']) and not same(%s, event) and not same(%s, context))"
            % (f, i, r, r, r, r, r, r, r),
        ]
    if f == "Retry":
        for i in range(K):
            r = "rule_list(state, 'Retry')[%d]" % i
            RULES_OK += [
                "implies(seqlen(rule_list(state, 'Retry')) > %d, isnum(%s.get('IntervalSeconds', 1)) and isnum(%s.get('MaxAttempts', 3)) "
                "and isnum(%s.get('BackoffRate', 2.0)))" % (i, r, r, r)]

K0 = "old(context['State'].get('RetryCount', 0))"
RI = "old(first_match(rule_list(state, 'Retry'), error_type))"
CI = "old(first_match(rule_list(state, 'Catch'), error_type))"
RECOV = "not old(err_unrecoverable(error_type))"


def retried(i):
    """retrier i decides and has attempts left"""
    return "(%s and %s == %d and old(retry_allowed(rule_list(state, 'Retry')[%d], context['State'].get('RetryCount', 0))))" % (RECOV, RI, i, i)


def any_retry():
    return "(" + " or ".join(retried(i) for i in range(K)) + ")"


def caught(j):
    return "(%s and not %s and %s == %d)" % (RECOV, any_retry(), CI, j)


def any_catch():
    return "(" + " or ".join(caught(j) for j in range(K)) + ")"


def handle_error_contract():
    ens = [
        ("C03:issued", "issued"),
        ("C03:ack-monotone", "implies(old(acked), acked)"),
        ("C03:held-monotone", "implies(old(held), held)"),
        ("C03:released-monotone", "implies(old(released), released)"),
    ]
    for i in range(K):
        R = "old(rule_list(state, 'Retry')[%d])" % i
        ens += [
            # the FIRST matching retrier decides; with attempts left the same state is re-published with the counter
            # advanced and the delay Interval x Rate^k, and neither Catch nor the terminal route is taken
            ("C07:retry-%d-republishes" % i, "implies(%s, n_pub == old(n_pub) + 1 and same(pub_event, event) and n_cs == old(n_cs) "
                                           "and n_term == old(n_term) and n_mr == old(n_mr))" % retried(i)),
            ("C07:retry-%d-counter" % i, "implies(%s, at_snapshot('pub_heap', context['State']['RetryCount']) == %s + 1)" % (retried(i), K0)),
            ("C07:retry-%d-delay" % i, "implies(%s, real(at_snapshot('pub_heap', context['State']['RetryTimeout'])) == "
                                     "real(old(retry_delay_ms(rule_list(state, 'Retry')[%d], context['State'].get('RetryCount', 0)))))" % (retried(i), i)),
            ("C07:retry-%d-same-state-same-data" % i, "implies(%s, at_snapshot('pub_heap', context['State']['Name']) == old(context['State']['Name']) "
                                                    "and same(at_snapshot('pub_heap', event.get('data')), old(event.get('data'))))" % retried(i)),
        ]
    for j in range(K):
        C = "old(rule_list(state, 'Catch')[%d])" % j
        ens += [
            # no retrier applies (or retries are exhausted): the FIRST matching catcher gets the Error Output placed by
            # ITS ResultPath into the state's input, and the transition goes to ITS Next
            ("C07:catch-%d-places-or-fails" % j, "implies(%s, n_mr == old(n_mr) + 1 or n_term == old(n_term) + 1)" % caught(j)),
            ("C07:catch-%d-error-output" % j, "implies(%s and n_mr == old(n_mr) + 1, same(mr_data, old(event.get('data', {}))) and "
                                            "same(mr_state, %s) and mr_out == '$' and "
                                            "at_snapshot('mr_heap', mr_result['Error']) == error_type and "
                                            "at_snapshot('mr_heap', keys_subset(mr_result, 'Error', 'Cause')))" % (caught(j), C)),
            ("C07:catch-%d-transition" % j, "implies(%s and n_mr == old(n_mr) + 1, n_cs == old(n_cs) + 1 and "
                                          "same(cs_next, old(rule_list(state, 'Catch')[%d].get('Next'))) and same(cs_event, event) and "
                                          "same(at_snapshot('cs_heap', event['data']), mr_ret))" % (caught(j), j)),
        ]
    ens += [
        # unrecoverable errors, and errors nobody handles, fail the state: terminal route with {Error, Cause}
        ("C07:unhandled-is-terminal", "implies(not %s and not %s, n_term == old(n_term) + 1 and same(term_event, event) and "
                                      "at_snapshot('term_heap', event['data']['Error']) == error_type and "
                                      "at_snapshot('term_heap', keys_subset(event['data'], 'Error', 'Cause')) and "
                                      "n_cs == old(n_cs) and n_mr == old(n_mr))" % (any_retry(), any_catch())),
        ("C07:unrecoverable-bypasses", "implies(old(err_unrecoverable(error_type)), n_term == old(n_term) + 1 and "
                                       "n_cs == old(n_cs) and n_mr == old(n_mr))"),
        ("C07:retried-is-not-terminal", "implies(%s, n_term == old(n_term))" % any_retry()),
    ]
    env = dict(E.NOTIFY_ENV)
    return Contract(
        E.NOTIFY + "handle_error", env=env,
        types={"state": "dict", "error_type": "str", "error_message": "strnone"},
        requires=E.WF_EVENT + E.WF_SELF + E.SEP_SELF_EVENT + [
            "same(context, event['context'])", "isstr(event['context']['State']['Name'])",
            "not same(state, event)", "not same(state, context)", "not same(state, context['State'])",
            "not same(state, context['Execution'])", "not same(state, self)",
            E.hist_is_list("event['context']['Execution']['Id']"),
            "implies(state_machine_type == 'STANDARD', event['context']['Execution']['Id'] in self.execution_history)",
            "isnum(context['State'].get('RetryCount', 0))",
            "implies(haskey(state, 'Type'), isstr(state['Type']))",
            "implies(haskey(state_machine, 'loggingConfiguration'), isdict(state_machine['loggingConfiguration']))",
        ] + RULES_OK,
        ensures=ens,
        ghost_modifies=E.RECURSIVE_EFFECTS,
        protected=E.ENGINE_OBJECTS, distinct=E.ENGINE_OBJECTS,
        loops={0: LoopContract(unroll=K), 1: LoopContract(unroll=K)},
        modifies="ALL", raises={})


def callees(reg):
    """Callee contracts handle_error needs beyond those of the handlers."""
    for g, t in (("n_mr", "int"), ("mr_data", "val"), ("mr_result", "val"), ("mr_state", "val"), ("mr_out", "val"),
                 ("mr_heap", "heap"), ("mr_ret", "val"), ("n_cs", "int"), ("cs_next", "val"), ("cs_event", "val"),
                 ("cs_heap", "heap")):
        reg.ghost(g, t)
    from contracts import paths as PA
    c = PA.merge_result_contract()
    c.ghost = {k: __import__("ast").parse(v, mode="eval").body for k, v in {
        "n_mr": "n_mr + 1", "mr_data": "data", "mr_result": "result", "mr_state": "state", "mr_out": "output_path",
        "mr_heap": "__heap__", "mr_ret": "retval"}.items()}
    c.pure = False
    c.preserves = "PROTECTED"
    c.ghost_modifies = []
    reg.by_key[c.key] = c
    cs = reg.by_key[E.SE + "StateEngine.change_state"]
    cs.ghost = {k: __import__("ast").parse(v, mode="eval").body for k, v in {
        "n_cs": "n_cs + 1", "cs_next": "next_state", "cs_event": "event", "cs_heap": "__heap__"}.items()}
    reg.contract(
        E.SE + "StateEngine.check_pending_results", types={"self": "obj", "execution_arn": "any"},
        requires=[("metadata-present", "execution_arn in self.branch_metadata")],
        ensures=[("ack-monotone", "implies(old(acked), acked)"), ("released-monotone", "implies(old(released), released)")],
        ghost={"n_check_pending": "n_check_pending + 1"},
        ghost_modifies=["n_ack", "ack_id", "acked", "n_cancel", "released"],
        modifies="ALL", preserves="PROTECTED", raises={},
        assumes=["check_pending_results: acknowledges held ids and cancels pending tasks of terminated branches; the callbacks "
                 "it triggers complete their OWN events (continuation contract) and leave the current event's objects alone"])
