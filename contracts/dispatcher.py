"""
Contracts for asl_workflow_engine/task_dispatcher.py on the REAL bodies: the reply path
(handle_rpcmessage_response: C16 reply-size boundary, C03/C04 pending-request bookkeeping), cancel_task (C06, C08).
"""
from pyvc.contracts import Contract, LoopContract

TD = "asl_workflow_engine/task_dispatcher.py::"
MAX = 262144


def externals(reg):
    for g, t in (("n_cb", "int"), ("cb_fn", "val"), ("cb_arg", "val"), ("cb_heap", "heap"), ("n_loads", "int"),
                 ("n_msg_ack", "int"), ("msg_acked", "val"), ("n_clear", "int"), ("clear_id", "val"), ("n_timer", "int"),
                 ("timer_cb", "val"), ("n_hist", "int"), ("hist_type", "val")):
        reg.ghost(g, t)
    reg.external("self.logger.*", ["msg"], modifies=None, result_type="none")
    reg.external("opentracing.*", ["a", "b", "c"], modifies=None, result_type="fn")
    reg.external("span_context", ["fmt", "carrier", "logger"], modifies=None, result_type="fn")
    reg.external("inject_span", ["fmt", "span", "logger"], modifies=None, fresh_result="dict")
    reg.external("scope.span.*", ["a", "b"], modifies=None, result_type="fn")
    reg.external("self.task_metrics[].*", ["labels", "value"], modifies=None, result_type="none")
    reg.ghost("msg_ack_multiple", "val")
    reg.external("message.acknowledge", ["multiple"], modifies=None, result_type="none",
                 ghost={"n_msg_ack": "n_msg_ack + 1", "msg_ack_multiple": "multiple"})
    reg.external("m.acknowledge", ["multiple"], modifies=None, result_type="none")
    reg.external("self.state_engine.event_dispatcher.clear_timeout", ["timeout_id"], modifies=None, result_type="none",
                 ghost={"n_clear": "n_clear + 1", "clear_id": "timeout_id"})
    reg.external("self.state_engine.event_dispatcher.set_timeout", ["callback", "delay"], modifies=None, result_type="fn",
                 ghost={"n_timer": "n_timer + 1", "timer_cb": "callback"})
    reg.external("self.state_engine.update_execution_history", ["state_machine", "execution_arn", "update_type", "details"],
                 # writes the execution stores and this execution's history list, nothing else (its own contract: C09)
                 modifies=["self.state_engine.executions", "self.state_engine.execution_history",
                           ("self.state_engine.execution_history[execution_arn]",
                            "execution_arn in self.state_engine.execution_history")],
                 result_type="none",
                 ghost={"n_hist": "n_hist + 1", "hist_type": "update_type"})
    # the reply body is parsed exactly when it is accepted
    reg.external("json.loads", ["s"], modifies=None, result_type="json", raises={"ValueError": None},
                 ghost_pre={"n_loads": "n_loads + 1"})
    # the stored continuation of the waiting task (engine side: on_response, under its own contract)
    reg.external("<callback>", ["fn", "arg"], modifies="ALL", preserves="PROTECTED", result_type="none",
                 ghost={"n_cb": "n_cb + 1", "cb_fn": "fn", "cb_arg": "arg", "cb_heap": "__heap__"},
                 assumes=["the task's continuation (on_response) completes its own event and leaves the dispatcher's request "
                          "tables alone except through the dispatcher's own methods (continuation contract, DESIGN 2.6)"])


def handle_rpcmessage_response_contract():
    BODYLEN = "old(len(message.body))"
    return Contract(
        TD + "TaskDispatcher.handle_rpcmessage_response", types={"self": "obj", "message": "obj"},
        requires=["isstr(message.correlation_id)", "isdict(message.properties)", "isbytes(message.body)", "isdict(self.pending_requests)",
                  "isdict(self.orphaned_responses)", "isobj(self.state_engine)", "isobj(self.state_engine.event_dispatcher)",
                  "isdict(self.state_engine.branch_metadata)", "isdict(self.state_engine.executions)",
                  "isdict(self.state_engine.execution_history)",
                  "implies(message.correlation_id in self.pending_requests and istrue(self.pending_requests[message.correlation_id]), "
                  "implies(self.pending_requests[message.correlation_id][1] in self.state_engine.execution_history, "
                  "islist(self.state_engine.execution_history[self.pending_requests[message.correlation_id][1]])))",
                  "not same(self.pending_requests, self.orphaned_responses)", "not same(self.pending_requests, message.properties)",
                  "isnum(self.startup_time)", "isnum(self.orphaned_response_retention_ms)",
                  # type invariant of pending_requests: 8-tuples (state_machine, execution_arn, resource_arn, callback,
                  # branch_id, sched_time, timeout_id, task_span) with string ARNs -- established by execute_task
                  "implies(message.correlation_id in self.pending_requests and istrue(self.pending_requests[message.correlation_id]), "
                  "istuple(self.pending_requests[message.correlation_id]) and seqlen(self.pending_requests[message.correlation_id]) == 8 and "
                  "isstr(self.pending_requests[message.correlation_id][1]) and isstr(self.pending_requests[message.correlation_id][2]) and "
                  "isnum(self.pending_requests[message.correlation_id][5]))",
                  "implies(message.correlation_id in self.orphaned_responses and istrue(self.orphaned_responses[message.correlation_id]), "
                  "istuple(self.orphaned_responses[message.correlation_id]) and seqlen(self.orphaned_responses[message.correlation_id]) == 2)"],
        ensures=[
            # C16: a reply is accepted iff its JSON text has at most 262144 characters: exactly at the limit it is parsed,
            # one over it is refused with States.DataLimitExceeded
            ("C16:reply-at-limit-parsed", "implies(%s <= %d, n_loads == old(n_loads) + 1)" % (BODYLEN, MAX)),
            ("C16:reply-over-limit-refused", "implies(%s > %d, n_loads == old(n_loads))" % (BODYLEN, MAX)),
            # C03/C15: the continuation of a waiting task is called at most once, and its request is removed first
            ("C03,C15:callback-at-most-once", "n_cb == old(n_cb) or n_cb == old(n_cb) + 1"),
        ],
        # what escapes is caught by the dispatcher's listener; this contract is about the normal exits
        raises={"Exception": None}, protected=["self", "message", "self.pending_requests", "self.orphaned_responses",
                                                "self.state_engine", "self.state_engine.event_dispatcher", "message.properties"],
        modifies="ALL")


ET = TD + "TaskDispatcher.execute_task.<locals>."
ET_ENV = {"self": "obj", "resource_arn": "str", "parameters": "any", "callback": "any", "timeout": "num", "is_task_timeout": "any",
          "context": "dict", "event_id": "str", "redelivered": "bool", "state_machine": "any", "arn": "dict", "service": "str",
          "region": "any", "resource_type": "any", "resource": "str", "branch_id": "any", "state_machine_arn": "any"}


def launch_externals(reg):
    for g, t in (("n_evpub", "int"), ("evpub_item", "val"), ("evpub_shared", "val"), ("evpub_heap", "heap"), ("n_rpc", "int"),
                 ("rpc_msg", "val"), ("rpc_heap", "heap"), ("n_errcb", "int"), ("n_setcanc", "int")):
        reg.ghost(g, t)
    reg.external("self.state_engine.event_dispatcher.publish", ["item", "threadsafe", "start_execution", "use_shared_queue"],
                 modifies=None, result_type="none",
                 ghost={"n_evpub": "n_evpub + 1", "evpub_item": "item", "evpub_shared": "use_shared_queue", "evpub_heap": "__heap__"})
    reg.external("self.producer.send", ["message", "threadsafe"], modifies=None, result_type="none",
                 ghost={"n_rpc": "n_rpc + 1", "rpc_msg": "message", "rpc_heap": "__heap__"})
    reg.external("self.state_engine.asl_store.get_cached_view", ["key", "default"], modifies=None, result_type="any")
    reg.external("Message", ["body", "properties", "content_type", "subject", "reply_to", "correlation_id", "expiration", "mandatory"],
                 modifies=None, fresh_result="obj",
                 ensures=[("fields", "same(result.reply_to, reply_to) and same(result.correlation_id, correlation_id) and "
                                     "same(result.expiration, expiration) and same(result.mandatory, mandatory) and "
                                     "same(result.subject, subject)")],
                 assumes=["Message(...) stores its constructor arguments under the same names (the transports' obligations: C19)"])
    reg.external("send_error_callback", ["carrier", "error"], modifies="ALL", preserves="PROTECTED", result_type="none",
                 ghost={"n_errcb": "n_errcb + 1"})
    reg.external("datetime.now", ["tz"], modifies=None, result_type="fn")


def start_execution_launch_contract():
    """execute_task.<locals>.asl_service_states_startExecution: where the child's start event is sent (C19), and that a
    redelivered launch is not sent again (C04)."""
    return Contract(
        ET + "asl_service_states_startExecution", env=ET_ENV,
        requires=["isdict(self.pending_requests)", "isdict(self.cancellers)", "isobj(self.state_engine)",
                  "isobj(self.state_engine.event_dispatcher)", "isdict(parameters)", "isdict(state_machine)",
                  "haskey(context, 'Execution')", "isdict(context['Execution'])", "haskey(context['Execution'], 'Id')",
                  "implies(haskey(parameters, 'StateMachineArn'), isstr(parameters['StateMachineArn']) or isnone(parameters['StateMachineArn']))",
                  "isdict(self.state_engine.executions)", "isdict(self.state_engine.execution_history)",
                  "implies(context['Execution']['Id'] in self.state_engine.execution_history, "
                  "islist(self.state_engine.execution_history[context['Execution']['Id']]))",
                  "not same(self.pending_requests, self.state_engine.executions)", "not same(self.cancellers, self.state_engine.executions)",
                  "not same(self.pending_requests, self.state_engine.execution_history)",
                  "not same(self.cancellers, self.state_engine.execution_history)", "not same(self.pending_requests, self.cancellers)",
                  "not same(parameters, self.cancellers)", "not same(parameters, self.pending_requests)"],
        ensures=[
            # C19: only asynchronous child launches (startExecution) go to the shared queue; synchronous ones stay with the
            # instance that holds their pending request
            ("C19:shared-queue-iff-async-launch", "implies(n_evpub == old(n_evpub) + 1, "
                                                  "(evpub_shared == True) == (resource == 'startExecution'))"),
            ("C19:at-most-one-launch", "n_evpub == old(n_evpub) or n_evpub == old(n_evpub) + 1"),
            # C04: a request that was already sent is not sent again after redelivery
            ("C04:redelivered-not-relaunched", "implies(istrue(redelivered), n_evpub == old(n_evpub))"),
            # C04/C15: the child's name (hence its ARN, the key its completion is matched under) is a function of the task's
            # event alone -- the supplied Name, else the event id -- so a redelivered launch registers under the same key
            ("C04,C15:child-name-from-event", "implies(n_evpub == old(n_evpub) + 1, same(at_snapshot('evpub_heap', "
                                              "evpub_item['context']['Execution']['Name']), "
                                              "old(parameters['Name'] if 'Name' in parameters else event_id)))"),
            ("C04,C15:child-input-is-parameter", "implies(n_evpub == old(n_evpub) + 1 and old('Input' in parameters), "
                                                 "same(at_snapshot('evpub_heap', evpub_item['data']), old(parameters['Input'])))"),
            # C03/C06/C15: a synchronous launch leaves a cancellation handle naming the very request that is pending ...
            ("C03,C06,C15:sync-canceller-names-pending-request",
             "implies(n_errcb == old(n_errcb) and resource != 'startExecution', event_id in self.cancellers and "
             "isdict(self.cancellers[event_id]) and self.cancellers[event_id]['TaskID'] in self.pending_requests and "
             "self.cancellers[event_id]['Type'] == 'StepFunction')"),
            # ... which (except for task-token callbacks) is keyed by the child's own execution ARN, the id the child reports
            # its completion under
            ("C15:pending-under-child-arn", "implies(n_evpub == old(n_evpub) + 1 and resource != 'startExecution' and "
                                            "resource != 'startExecution.waitForTaskToken', "
                                            "at_snapshot('evpub_heap', evpub_item['context']['Execution']['Id']) in self.pending_requests)"),
            ("C15:async-launch-completes-at-once", "implies(resource == 'startExecution' and n_errcb == old(n_errcb), "
                                                   "n_timer == old(n_timer) and n_cb == old(n_cb) + 1)"),
            ("C15:sync-launch-waits", "implies(resource != 'startExecution', n_cb == old(n_cb))"),
        ],
        raises={"Exception": None},
        covers_exit=[("launched-sync", "n_evpub == old(n_evpub) + 1 and resource == 'startExecution.sync' and n_errcb == old(n_errcb)"),
                     ("launched-async", "n_evpub == old(n_evpub) + 1 and resource == 'startExecution'"),
                     ("redelivered-sync-reregistered", "istrue(redelivered) and resource == 'startExecution.sync:2' and "
                                                       "n_errcb == old(n_errcb) and n_timer == old(n_timer) + 1")],
        protected=["self", "context", "parameters", "state_machine", "self.pending_requests", "self.cancellers", "self.state_engine",
                   "self.state_engine.event_dispatcher"],
        modifies="ALL")


def rpcmessage_contract():
    """execute_task.<locals>.asl_service_rpcmessage: the request sent to a worker (C19) and what happens on redelivery (C04)."""
    CORR = "(event_id if not (resource_type == 'rpcmessage' and (resource == 'invoke' or resource == 'invoke.waitForTaskToken')) else "\
           "event_id + ('.invoke' if resource == 'invoke' else '.waitForTaskToken'))"
    return Contract(
        ET + "asl_service_rpcmessage", env=ET_ENV,
        requires=["isdict(self.pending_requests)", "isdict(self.cancellers)", "isobj(self.state_engine)", "isobj(self.reply_to)",
                  "isobj(self.state_engine.event_dispatcher)", "isdict(state_machine)", "not same(self.pending_requests, self.cancellers)",
                  "haskey(context, 'Execution')", "isdict(context['Execution'])", "haskey(context['Execution'], 'Id')",
                  "isstr(resource_type)", "implies(isdict(parameters) and haskey(parameters, 'FunctionName'), isstr(parameters['FunctionName']) "
                  "or isnone(parameters['FunctionName']))",
                  # the dispatcher's request tables are not the engine's stores (separate objects built in the constructors)
                  "isdict(self.state_engine.executions)", "isdict(self.state_engine.execution_history)",
                  "implies(context['Execution']['Id'] in self.state_engine.execution_history, "
                  "islist(self.state_engine.execution_history[context['Execution']['Id']]))",
                  "not same(self.pending_requests, self.state_engine.executions)", "not same(self.cancellers, self.state_engine.executions)",
                  "not same(self.pending_requests, self.state_engine.execution_history)",
                  "not same(self.cancellers, self.state_engine.execution_history)"],
        ensures=[
            # C04: a task whose request was already sent is not requested again; its reply can still be matched because the
            # pending request, the canceller and the timeout are registered again under the same correlation id
            ("C04:redelivered-not-resent", "implies(redelivered, n_rpc == old(n_rpc))"),
            ("C04:first-delivery-sends-once", "implies(not redelivered and n_errcb == old(n_errcb), n_rpc == old(n_rpc) + 1)"),
            ("C04:request-registered-regardless", "implies(n_errcb == old(n_errcb), n_timer == old(n_timer) + 1 and "
                                                  "exists_key_added(self.pending_requests))") if False else
            ("C04:timeout-armed-regardless", "implies(n_errcb == old(n_errcb), n_timer == old(n_timer) + 1)"),
            # C19: the request goes to the queue named by the function, with this instance's reply queue and the event's id
            ("C19:request-addressing", "implies(n_rpc == old(n_rpc) + 1, at_snapshot('rpc_heap', same(rpc_msg.reply_to, old(self.reply_to.name))) "
                                       "and at_snapshot('rpc_heap', same(rpc_msg.expiration, timeout)) and "
                                       "at_snapshot('rpc_heap', rpc_msg.mandatory == True))"),
            ("C04,C19:correlation-is-event-id", "implies(n_rpc == old(n_rpc) + 1 and resource_type != 'rpcmessage', "
                                                "at_snapshot('rpc_heap', same(rpc_msg.correlation_id, event_id)))"),
            # C03/C06: the cancellation handle registered for this task's event names the very request that is pending
            # (long-form invocations carry a suffixed correlation id), so cancelling the event removes that request
            ("C03,C06:canceller-names-pending-request", "implies(n_errcb == old(n_errcb), event_id in self.cancellers and "
                                                        "isdict(self.cancellers[event_id]) and "
                                                        "self.cancellers[event_id]['TaskID'] in self.pending_requests and "
                                                        "self.cancellers[event_id]['Type'] == 'Function')"),
            ("C03,C04,C06:pending-under-correlation-id", "implies(n_errcb == old(n_errcb), %s in self.pending_requests and "
                                                         "self.cancellers[event_id]['TaskID'] == %s)" % (CORR, CORR)),
        ],
        raises={"Exception": None},
        covers_exit=[("sent", "n_rpc == old(n_rpc) + 1"), ("redelivered-not-sent", "redelivered and n_rpc == old(n_rpc) and n_timer == old(n_timer) + 1")],
        protected=["self", "context", "parameters", "state_machine", "self.pending_requests", "self.cancellers", "self.state_engine",
                   "self.state_engine.event_dispatcher", "self.reply_to"],
        modifies="ALL")


def td_branch_has_terminated_contract():
    return Contract(
        TD + "TaskDispatcher.branch_has_terminated", types={"self": "obj", "execution_arn": "any", "branch_id": "any"},
        requires=["isobj(self.state_engine)", "isdict(self.state_engine.branch_metadata)",
                  # type invariant of the join state: per execution an object with a `results` dict of join records (dicts)
                  "implies(isstr(execution_arn) and execution_arn in self.state_engine.branch_metadata, "
                  "isobj(self.state_engine.branch_metadata[execution_arn]) and isdict(self.state_engine.branch_metadata[execution_arn].results))",
                  "isstr(execution_arn)", "isnone(branch_id) or isstr(branch_id) or isint(branch_id)"],
        ensures=[
            ("C06:reads-the-terminated-mark", "iff(result == True, istrue(branch_id) and execution_arn in self.state_engine.branch_metadata and "
                                              "istrue(self.state_engine.branch_metadata[execution_arn].results[branch_id].get('terminated')))"),
            ("C06:is-a-flag", "isbool(result)"),
        ],
        raises={"KeyError": "istrue(branch_id) and execution_arn in self.state_engine.branch_metadata and "
                            "not (branch_id in self.state_engine.branch_metadata[execution_arn].results)",
                "AttributeError": None, "TypeError": None},
        modifies=None)


def cancel_task_contract():
    """TaskDispatcher.cancel_task on its real body, one level (the recursive sweep over a child execution's cancellers goes
    through this same contract)."""
    CANC = "self.cancellers[event_id]"
    return Contract(
        TD + "TaskDispatcher.cancel_task", types={"self": "obj", "event_id": "any"},
        requires=["isdict(self.cancellers)", "isdict(self.pending_requests)", "isobj(self.state_engine)",
                  "isobj(self.state_engine.event_dispatcher)", "not same(self.cancellers, self.pending_requests)",
                  "isstr(event_id)",
                  "implies(event_id in self.cancellers and istrue(%s), isdict(%s) and not same(%s, self.cancellers) and "
                  "not same(%s, self.pending_requests))" % (CANC, CANC, CANC, CANC),
                  "implies(event_id in self.cancellers and istrue(%s) and %s.get('Type') != 'Timeout' and "
                  "isstr(%s.get('TaskID')) and %s.get('TaskID') in self.pending_requests and istrue(self.pending_requests[%s.get('TaskID')]), "
                  "istuple(self.pending_requests[%s.get('TaskID')]) and seqlen(self.pending_requests[%s.get('TaskID')]) == 8)"
                  % ((CANC,) * 7),
                  "implies(event_id in self.cancellers and istrue(%s), isstr(%s.get('TaskID')) or isnone(%s.get('TaskID')) or "
                  "iscallable(%s.get('TaskID')) or isint(%s.get('TaskID')))" % ((CANC,) * 5)],
        ensures=[
            # C06 / C08: cancelling removes the canceller; a Wait's timer is cleared BEFORE its callback is told
            # Task.Terminated; a task's pending request is removed before its callback is told
            ("C06,C08:canceller-removed", "implies(old(event_id in self.cancellers and istrue(%s)), not (event_id in self.cancellers) or n_cb > old(n_cb))" % CANC),
            ("C08:wait-timer-cleared", "implies(old(event_id in self.cancellers and istrue(%s) and %s.get('Type') == 'Timeout'), "
                                       "n_clear >= old(n_clear) + 1)" % (CANC, CANC)),
            ("C06:unknown-id-is-a-no-op", "implies(not old(event_id in self.cancellers and istrue(%s)), n_cb == old(n_cb) and n_clear == old(n_clear) "
                                          "and unchanged(self.cancellers) and unchanged(self.pending_requests))" % CANC),
        ],
        raises={}, modifies="ALL", protected=["self", "self.cancellers", "self.pending_requests", "self.state_engine",
                                            "self.state_engine.event_dispatcher"])


# --------------------------------------------------------------------------------------------------------------------
# C04: a reply that arrives around a restart before its task's event is redelivered is parked in orphaned_responses and
# matched by a periodic sweep; the sweep keeps itself scheduled for as long as something is parked.
# --------------------------------------------------------------------------------------------------------------------
def _orphan_scope():
    from pyvc.contracts import Registry
    sc = Registry()
    for g, t in (("o_ntimer", "int"), ("o_timer_cb", "val"), ("o_timer_delay", "val"), ("o_nresp", "int")):
        sc.ghost(g, t)
    sc.external("self.logger.*", ["msg"], modifies=None, result_type="none")
    sc.external("self.state_engine.event_dispatcher.set_timeout", ["callback", "delay"], modifies=None, result_type="fn",
                ghost={"o_ntimer": "o_ntimer + 1", "o_timer_cb": "callback", "o_timer_delay": "delay"})
    return sc


def schedule_orphaned_response_handler_contract():
    c = Contract(
        TD + "TaskDispatcher.schedule_orphaned_response_handler", types={"self": "obj"},
        requires=["isdict(self.orphaned_responses)", "isbool(self.handle_orphaned_responses_is_scheduled)", "isobj(self.state_engine)",
                  "isobj(self.state_engine.event_dispatcher)", "not same(self, self.orphaned_responses)"],
        ensures=[
            ("C04:sweep-armed-when-orphans-wait", "implies(not old(isemptydict(self.orphaned_responses)) and "
                                                  "not old(self.handle_orphaned_responses_is_scheduled), o_ntimer == old(o_ntimer) + 1 and "
                                                  "o_timer_delay == 1000 and self.handle_orphaned_responses_is_scheduled == True)"),
            ("C04:at-most-one-sweep-pending", "implies(old(self.handle_orphaned_responses_is_scheduled) or old(isemptydict(self.orphaned_responses)), "
                                              "o_ntimer == old(o_ntimer) and self.handle_orphaned_responses_is_scheduled == "
                                              "old(self.handle_orphaned_responses_is_scheduled))"),
            ("C03,C04:orphans-untouched", "unchanged(self.orphaned_responses)"),
        ],
        raises={}, modifies=["self"])
    c.scope = _orphan_scope()
    return c


def handle_orphaned_responses_contract():
    """The sweep itself: whatever the matching loop did, on return a further sweep is pending iff something is still parked."""
    sc = _orphan_scope()
    sc.contract(TD + "TaskDispatcher.handle_rpcmessage_response", types={"self": "obj", "message": "any"}, modifies="ALL",
                preserves="PROTECTED", raises={}, ghost={"o_nresp": "o_nresp + 1"}, ghost_modifies=[],
                assumes=["handle_rpcmessage_response (own contract: C16 / C03) does not touch the sweep's scheduling flag"])
    c = Contract(
        TD + "TaskDispatcher.handle_orphaned_responses", types={"self": "obj"},
        requires=["isdict(self.orphaned_responses)", "isdict(self.pending_requests)", "isobj(self.state_engine)",
                  "isobj(self.state_engine.event_dispatcher)", "not same(self, self.orphaned_responses)", "not same(self, self.pending_requests)"],
        ensures=[
            ("C04:sweep-rearmed-while-orphans-remain", "implies(len(self.orphaned_responses) != 0, "
                                                       "self.handle_orphaned_responses_is_scheduled == True and o_ntimer == old(o_ntimer) + 1 and "
                                                       "o_timer_delay == 1000)"),
            ("C04:sweep-stops-when-nothing-is-parked", "implies(len(self.orphaned_responses) == 0, "
                                                       "self.handle_orphaned_responses_is_scheduled == False and o_ntimer == old(o_ntimer))"),
        ],
        loops={0: LoopContract(invariants=[("timer-untouched", "o_ntimer == old(o_ntimer)"),
                                           ("tables-are-dicts", "isdict(self.orphaned_responses) and isdict(self.pending_requests)")],
                               havoc_heap=True)},
        raises={"TypeError": None, "ValueError": None},
        protected=["self", "self.state_engine", "self.state_engine.event_dispatcher"],
        modifies="ALL")
    c.scope = sc
    return c
