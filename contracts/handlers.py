"""
Contracts for the state handlers nested in StateEngine.notify (the closures asl_state_*, on_response,
on_timeout, ...).  Clause labels carry the property they belong to ("C03:handed-over"); a property
module keeps the obligations whose id matches its tag.

Ghost variables are described in contracts/engine.py.
"""
from pyvc.api import Contract, LoopContract
from contracts import engine as E

N = E.NOTIFY

EVENT_OBJECTS = ["event", "context", "context['State']", "context['Execution']", "state", "state_machine", "ASL"]

# what the three outcomes of a non-fan-out handler look like in ghost terms
SUCCESS_NEXT = "(n_herr == old(n_herr) and n_term == old(n_term) and n_pub == old(n_pub) + 1)"
SUCCESS_END = "(n_herr == old(n_herr) and n_term == old(n_term) + 1)"
FAILED = "(n_herr == old(n_herr) + 1)"

WF_STATE_PATHS = [
    # a validator-accepted state: paths are absent, null, or start with '$' (C18 supplies this)
    "implies(haskey(state, 'InputPath') and isstr(state['InputPath']), state['InputPath'].startswith('$'))",
    "implies(haskey(state, 'OutputPath') and isstr(state['OutputPath']), state['OutputPath'].startswith('$'))",
]


def externals(reg):
    for g, s in (("exec_resource", "val"), ("exec_params", "val"), ("exec_cb", "val"), ("exec_timeout", "val"),
                 ("exec_is_task_timeout", "val"), ("exec_id", "val"), ("exec_redelivered", "val"),
                 ("exec_context", "val"), ("exec_heap", "heap"), ("canc_id", "val"), ("canc_timer", "val"), ("canc_cb", "val"),
                 ("n_clear", "int")):
        reg.ghost(g, s)
    # the task dispatcher as seen from the engine
    reg.external("self.task_dispatcher.execute_task",
                 ["resource_arn", "parameters", "callback", "timeout", "is_task_timeout", "context", "event_id",
                  "redelivered"],
                 modifies="ALL", preserves=EVENT_OBJECTS + ["self"], result_type="none",
                 ghost={"n_exec_task": "n_exec_task + 1", "exec_resource": "resource_arn", "exec_params": "parameters",
                        "exec_cb": "callback", "exec_timeout": "timeout", "exec_is_task_timeout": "is_task_timeout",
                        "exec_id": "event_id", "exec_redelivered": "redelivered", "exec_context": "context",
                        "exec_heap": "__heap__", "cont": "True"},
                 assumes=["TaskDispatcher.execute_task registers the callback as the continuation that owns the "
                          "event id (its own obligations: C04/C15/C19) and does not raise (A2)"])
    reg.external("self.task_dispatcher.cancel_task", ["event_id"], modifies="ALL",
                 preserves=EVENT_OBJECTS + ["self"], result_type="none",
                 ghost={"n_cancel": "n_cancel + 1", "released": "released or same(event_id, cur_id)"},
                 assumes=["callbacks run by cancel_task complete their OWN events (continuation contract, DESIGN 2.6) "
                          "and leave the current event's objects alone"])
    reg.external("self.task_dispatcher.remove_canceller", ["event_id"], modifies=["self.task_dispatcher.cancellers"],
                 result_type="none",
                 ghost={"n_rmcanceller": "n_rmcanceller + 1", "released": "released or same(event_id, cur_id)"})
    reg.external("self.task_dispatcher.set_timeout_canceller", ["event_id", "task_id", "callback", "execution_arn"],
                 modifies=["self.task_dispatcher.cancellers"], result_type="none",
                 ghost={"n_setcanceller": "n_setcanceller + 1", "canc_id": "event_id", "canc_timer": "task_id",
                        "canc_cb": "callback"})
    reg.external("self.task_dispatcher.handle_sfn_response", ["correlation_id", "input", "output", "detail"],
                 modifies="ALL", preserves=EVENT_OBJECTS + ["self", "detail"], result_type="none",
                 ghost={"n_sfn": "n_sfn + 1"})
    reg.external("self.asl_store.get_cached_view", ["key", "default"], modifies=None, result_type="any")
    # branch_has_terminated as seen by a handler: either the branch is live (nothing observable happens, the event id is
    # recorded with its join) or it has been terminated, in which case the event is dropped: acknowledged (for states
    # other than Parallel / Map) with nothing to hand over -- "issued" by definition (DESIGN A.7)
    for g, t in (("n_bht", "int"), ("bht_result", "val")):
        reg.ghost(g, t)
    reg.contract(
        E.SE + "StateEngine.branch_has_terminated",
        types={"self": "obj", "state_type": "str", "context": "dict", "id": "any", "timeout": "any"},
        ghost={"n_bht": "n_bht + 1", "bht_result": "retval"},
        ghost_modifies=["n_ack", "ack_id", "acked", "issued", "held", "n_cancel", "released", "n_rmcanceller"],
        ensures=[("result-is-a-flag", "isstr(result) or isnone(result) or isbool(result)"),
                 ("dropped-is-acked", "implies(istrue(result) and state_type != 'Parallel' and state_type != 'Map' and same(id, cur_id), "
                                      "acked and issued)"),
                 ("live-is-silent", "implies(not istrue(result), n_ack == old(n_ack) and acked == old(acked) and issued == old(issued) "
                                    "and n_cancel == old(n_cancel) and released == old(released))"),
                 ("ack-monotone", "implies(old(acked), acked)"), ("issued-monotone", "implies(old(issued), issued)"),
                 ("held-monotone", "implies(old(held), held)"), ("released-monotone", "implies(old(released), released)")],
        modifies="ALL", preserves="PROTECTED", raises={},
        assumes=["branch_has_terminated (real body not yet under contract): drops and acknowledges the events of terminated "
                 "branches, records the ids of live ones, touches only join metadata; BranchMetadata construction does not raise "
                 "for an engine-written StartTime"])
    # parse_rfc3339_datetime as seen by callers: an opaque datetime whose .timestamp() is INSTANT(text) (C08)
    reg.contract(E.SE + "parse_rfc3339_datetime", pure=True,
                 ensures=[("instant", "ts(retval) == INSTANT(rfc3339)")], result_type="fn",
                 # a valid timestamp parses; whitespace-only text fails with IndexError, any other bad text with
                 # ValueError, a non-string with AttributeError (assumed caller view; the real body is under C08)
                 raises={"IndexError": "isstr(rfc3339) and not RFC3339_OK(rfc3339) and re_full('[ \\t\\n\\r\\x0b\\x0c]*', rfc3339)",
                         "ValueError": "isstr(rfc3339) and not RFC3339_OK(rfc3339)",
                         "AttributeError": "not isstr(rfc3339)"},
                 assumes=["RFC3339_OK(text) implies text is not whitespace-only; parse_rfc3339_datetime raises exactly on "
                          "text that is not a valid timestamp"],
                 modifies=None)


STATE_TYPE_OF = {"asl_state_Pass": "Pass", "asl_state_Succeed": "Succeed", "asl_state_Fail": "Fail",
                 "asl_state_Task": "Task", "asl_state_Task_delegate": "Task", "asl_state_Wait": "Wait",
                 "asl_state_Choice": "Choice", "asl_state_Parallel": "Parallel", "asl_state_Map": "Map",
                 "asl_state_Parallel_delegate": "Parallel", "asl_state_Map_delegate": "Map"}


def base(key, extra_env=None, **kw):
    env = dict(E.NOTIFY_ENV)
    env.update(extra_env or {})
    kw.setdefault("requires", E.NOTIFY_ENV_PRE)
    st = STATE_TYPE_OF.get(key.split(".")[0])
    if st:
        # notify dispatches on "asl_state_" + state_type, so inside this handler state_type is fixed
        kw["requires"] = list(kw["requires"]) + ["state_type == %r" % st]
    kw.setdefault("ghost_init", E.HANDLER_GHOST_INIT)
    kw.setdefault("protected", E.ENGINE_OBJECTS)
    kw.setdefault("distinct", E.ENGINE_OBJECTS)
    kw.setdefault("modifies", "ALL")
    kw.setdefault("raises", {})
    return Contract(N + key, env=env, **kw)


def pass_contract():
    return base("asl_state_Pass", ensures=[
        ("C03:handed-over", "acked or held or cont"),
        ("C01:pipeline-next", "implies(%s, same(at_snapshot('pub_heap', event['data']), "
                              "old(pass_output(state, data, context))))" % SUCCESS_NEXT),
        ("C01:pipeline-end", "implies(%s, same(at_snapshot('term_heap', event['data']), "
                             "old(pass_output(state, data, context))))" % SUCCESS_END),
        ("C01:next-state", "implies(%s, at_snapshot('pub_heap', event['context']['State']['Name']) == "
                           "old(state.get('Next')))" % SUCCESS_NEXT),
        ("C01:end-is-terminal", "implies(old(state.get('End')) and n_herr == old(n_herr), "
                                "n_term == old(n_term) + 1 and same(term_event, event) and same(term_id, id))"),
        ("C01:not-end-is-transition", "implies(not old(state.get('End')) and n_herr == old(n_herr), "
                                      "n_term == old(n_term) and n_pub == old(n_pub) + 1)"),
        ("C01:one-outcome", "%s or %s or %s" % (SUCCESS_NEXT, SUCCESS_END, FAILED)),
        ("C09:exited-logged", "implies(%s, hist_type == 'PassStateExited')" % SUCCESS_NEXT),
    ], covers_exit=[("next", SUCCESS_NEXT), ("end", SUCCESS_END), ("failed", FAILED)])


def succeed_contract():
    return base("asl_state_Succeed", raises={"ParameterPathFailure": None}, ensures=[
        ("C03:handed-over", "acked or held or cont"),
        ("C01:pipeline-end", "implies(%s, same(at_snapshot('term_heap', event['data']), "
                             "old(io_only_output(state, data, context))))" % SUCCESS_END),
        ("C01:always-terminal", "implies(n_herr == old(n_herr), n_term == old(n_term) + 1 and same(term_id, id))"),
        ("C01:one-outcome", "%s or %s" % (SUCCESS_END, FAILED)),
    ], xensures={"ParameterPathFailure": [("C03:not-acked-on-escape", "not acked and n_ack == old(n_ack)")]},
        covers_exit=[("end", SUCCESS_END), ("failed", FAILED)])


def fail_contract():
    return base("asl_state_Fail", ensures=[
        ("C03:handed-over", "acked or held or cont"),
        ("C01:fail-is-terminal", "n_term == old(n_term) + 1 and same(term_id, id) and same(term_event, event)"),
        ("C01:fail-error", "at_snapshot('term_heap', event['data']['Error']) == old(state.get('Error', 'Unspecified'))"),
        ("C01:fail-cause", "at_snapshot('term_heap', event['data']['Cause']) == old(state.get('Cause', 'Unspecified'))"),
        ("C01:fail-shape", "at_snapshot('term_heap', keys_exactly(event['data'], 'Error', 'Cause'))"),
        ("C01:no-retry-no-catch", "n_herr == old(n_herr)"),
    ])


def task_contract():
    return base("asl_state_Task", ensures=[
        ("C03:handed-over", "cont"),
        ("C07:retry-deferred", "n_timer == old(n_timer) + 1 and "
                               "same(timer_ms, old(context['State'].get('RetryTimeout', 0)))"),
        ("C03:nothing-else", "n_pub == old(n_pub) and n_ack == old(n_ack) and n_herr == old(n_herr)"),
    ])


TIMEOUT_ENV = {"timeout": "num", "t1": "num", "t2": "num", "execution_timeout": "any", "parameters": "any",
               "resource_arn": "any", "input": "any", "current_timestamp": "float", "is_task_timeout": "any"}


def task_delegate_contract():
    return base("asl_state_Task_delegate", ensures=[
        ("C03:handed-over", "acked or held or cont"),
        ("C01:task-input", "implies(n_exec_task == old(n_exec_task) + 1, same(exec_params, "
                           "old(EPT(effective_input(state, data, context), context, state.get('Parameters')))))"),
        ("C04:request-identity", "implies(n_exec_task == old(n_exec_task) + 1, same(exec_id, id) and "
                                 "same(exec_redelivered, redelivered) and same(exec_context, context) and "
                                 "exec_resource == old(state.get('Resource', '')))"),
        # C15: the task token handed to a .waitForTaskToken task names THIS event (so only its own callback completes it)
        ("C15:token-names-this-event", "implies(n_exec_task == old(n_exec_task) + 1 and isstr(old(state.get('Resource', ''))) and "
                                       "old(state.get('Resource', '')).endswith('.waitForTaskToken'), "
                                       "at_snapshot('exec_heap', isstr(context['Task']['Token']) and "
                                       "context['Task']['Token'].startswith(id + '.waitForTaskToken:')))"),
        ("C03:one-outcome", "(n_exec_task == old(n_exec_task) + 1 and n_herr == old(n_herr) and n_ack == old(n_ack)) "
                            "or (n_exec_task == old(n_exec_task) and n_herr == old(n_herr) + 1) "
                            "or (n_exec_task == old(n_exec_task) and n_herr == old(n_herr) and istrue(bht_result) and acked)"),
        # C06: a task whose branch was terminated while it waited for its start / retry delay is not started
        ("C06:terminated-branch-not-started", "implies(n_bht == old(n_bht) + 1 and istrue(bht_result), "
                                              "n_exec_task == old(n_exec_task) and n_herr == old(n_herr) and n_pub == old(n_pub))"),
        ("C06:termination-rechecked", "n_bht == old(n_bht) + 1"),
        # C08: the timeout handed to the dispatcher: min(task deadline, execution deadline) - now, never negative,
        # computed from the entry/start instants carried in the context (so redelivery does not extend it)
        # C08: the timeout handed to the dispatcher targets min(task deadline, execution deadline), both computed from
        # the instants carried in the context (so late delivery / redelivery does not extend them): never early
        # w.r.t. the last clock read, never later than the deadline measured from the clock at entry, never negative
        ("C08:timeout-not-early", "implies(n_exec_task == old(n_exec_task) + 1 and not haskey(state, 'TimeoutSecondsPath'), "
                                  "isnum(exec_timeout) and NOW() + real(exec_timeout) / 1000 >= rmin(old(INSTANT(context['Execution'].get('StartTime'))) + real(old(ASL.get('TimeoutSeconds', self.execution_ttl))), old(INSTANT(context['State'].get('EnteredTime'))) + real(old(state.get('TimeoutSeconds', 99999999)))))"),
        ("C08:timeout-not-late", "implies(n_exec_task == old(n_exec_task) + 1 and not haskey(state, 'TimeoutSecondsPath'), "
                                 "real(exec_timeout) <= rmax(0, (rmin(old(INSTANT(context['Execution'].get('StartTime'))) + real(old(ASL.get('TimeoutSeconds', self.execution_ttl))), old(INSTANT(context['State'].get('EnteredTime'))) + real(old(state.get('TimeoutSeconds', 99999999)))) - old(NOW())) * 1000))"),
        ("C08:task-timeout-flag", "implies(n_exec_task == old(n_exec_task) + 1, isbool(exec_is_task_timeout))"),
        ("C08:timeout-nonneg", "implies(n_exec_task == old(n_exec_task) + 1, real(exec_timeout) >= 0)"),
    ], requires=E.NOTIFY_ENV_PRE + ["isnum(ASL.get('TimeoutSeconds', self.execution_ttl))",
                                    "isnum(state.get('TimeoutSeconds', 99999999))",
                                    "isobj(self.task_dispatcher.reply_to)", "isstr(self.task_dispatcher.reply_to.name)"])


def on_response_contract():
    return base("asl_state_Task_delegate.<locals>.on_response", extra_env=TIMEOUT_ENV,
                types={"result": "any"},
                ensures=[
        ("C03:handed-over", "acked or held"),
        ("C01:pipeline-next", "implies(%s, same(at_snapshot('pub_heap', event['data']), "
                              "old(task_output(state, data, context, result))))" % SUCCESS_NEXT),
        ("C01:pipeline-end", "implies(%s, same(at_snapshot('term_heap', event['data']), "
                             "old(task_output(state, data, context, result))))" % SUCCESS_END),
        ("C01:next-state", "implies(%s, at_snapshot('pub_heap', event['context']['State']['Name']) == "
                           "old(state.get('Next')))" % SUCCESS_NEXT),
        ("C01:error-result-fails", "implies(old(task_result_is_error(result)), n_herr == old(n_herr) + 1)"),
        ("C01:ok-result-succeeds", "implies(not old(task_result_is_error(result)), %s or %s or %s)"
         % (SUCCESS_NEXT, SUCCESS_END, FAILED)),
        # C08 typing of timeouts: execution deadline => States.ExecutionTimeout (unrecoverable); task deadline => States.Timeout
        ("C08:execution-timeout-typed", "implies(old(task_error_type(result)) == 'States.Timeout' and timeout == t1, "
                                        "herr_type == 'States.ExecutionTimeout')"),
        ("C08:task-timeout-typed", "implies(old(task_error_type(result)) == 'States.Timeout' and timeout != t1, "
                                   "herr_type == 'States.Timeout')"),
        ("C01:task-failed-typed", "implies(old(task_error_type(result)) == 'States.TaskFailed', herr_type == 'States.TaskFailed')"),
        ("C06:terminated-not-logged", "implies(old(task_error_type(result)) == 'Task.Terminated', "
                                      "herr_type == 'Task.Terminated')"),
        ("C03:canceller-released", "released"),
    ])


def wait_contract():
    return base("asl_state_Wait", raises={"ParameterPathFailure": None, "ValueError": None, "IndexError": None,
                                          "TypeError": None, "AttributeError": None},
                requires=E.NOTIFY_ENV_PRE + ["isnum(ASL.get('TimeoutSeconds', self.execution_ttl))"],
                ensures=[
        ("C03:handed-over", "acked or held or cont"),
        ("C03:one-outcome", "(n_timer == old(n_timer) + 1 and n_herr == old(n_herr) and n_ack == old(n_ack) and "
                            "n_setcanceller == old(n_setcanceller) + 1) or (n_herr == old(n_herr) + 1 and n_timer == old(n_timer))"),
        ("C08:canceller-owns-timer", "implies(n_timer == old(n_timer) + 1, same(canc_id, id) and same(canc_cb, timer_cb))"),
        ("C08:delay-nonneg", "implies(n_timer == old(n_timer) + 1, isnum(timer_ms) and real(timer_ms) >= 0)"),
        # the delay targets min(wait target, execution deadline): never early w.r.t. the last clock read ("never
        # before it, even if delivered late"), never later than that instant measured from the clock at entry
        ("C08:seconds-not-early", "implies(n_timer == old(n_timer) + 1 and old(wait_uses_seconds(state)), "
                                  "NOW() + real(timer_ms) / 1000 >= rmin(old(INSTANT(context['State'].get('EnteredTime'))) + real(old(state.get('Seconds'))), old(INSTANT(context['Execution'].get('StartTime'))) + real(old(ASL.get('TimeoutSeconds', self.execution_ttl)))))"),
        ("C08:seconds-not-late", "implies(n_timer == old(n_timer) + 1 and old(wait_uses_seconds(state)), "
                                 "real(timer_ms) <= rmax(0, (rmin(old(INSTANT(context['State'].get('EnteredTime'))) + real(old(state.get('Seconds'))), old(INSTANT(context['Execution'].get('StartTime'))) + real(old(ASL.get('TimeoutSeconds', self.execution_ttl)))) - old(NOW())) * 1000))"),
        ("C08:timestamp-not-early", "implies(n_timer == old(n_timer) + 1 and old(wait_uses_timestamp(state)) and "
                                    "old(isstr(state.get('Timestamp'))) and old(RFC3339_OK(state.get('Timestamp'))), "
                                    "NOW() + real(timer_ms) / 1000 >= rmin(old(INSTANT(state.get('Timestamp'))), old(INSTANT(context['Execution'].get('StartTime'))) + real(old(ASL.get('TimeoutSeconds', self.execution_ttl)))))"),
        ("C08:timestamp-not-late", "implies(n_timer == old(n_timer) + 1 and old(wait_uses_timestamp(state)) and "
                                   "old(isstr(state.get('Timestamp'))) and old(RFC3339_OK(state.get('Timestamp'))), "
                                   "real(timer_ms) <= rmax(0, (rmin(old(INSTANT(state.get('Timestamp'))), old(INSTANT(context['Execution'].get('StartTime'))) + real(old(ASL.get('TimeoutSeconds', self.execution_ttl)))) - old(NOW())) * 1000))"),
    ])


def on_timeout_contract():
    return base("asl_state_Wait.<locals>.on_timeout", extra_env=TIMEOUT_ENV, types={"error": "any"},
                requires=E.NOTIFY_ENV_PRE + WF_STATE_PATHS + ["isnone(error) or isdict(error)",
                                                            # the error object is built by cancel_task for this call
                                                            "not same(error, self.task_dispatcher.cancellers)"],
                ensures=[
        ("C03:handed-over", "acked or held"),
        ("C01:pipeline-next", "implies(%s, same(at_snapshot('pub_heap', event['data']), "
                              "old(AP(input, context, state.get('OutputPath', '$')))))" % SUCCESS_NEXT),
        ("C01:pipeline-end", "implies(%s, same(at_snapshot('term_heap', event['data']), "
                             "old(AP(input, context, state.get('OutputPath', '$')))))" % SUCCESS_END),
        ("C01:next-state", "implies(%s, at_snapshot('pub_heap', event['context']['State']['Name']) == "
                           "old(state.get('Next')))" % SUCCESS_NEXT),
        ("C08:execution-timeout-typed", "implies(old(not istrue(error)) and timeout == t1, n_herr == old(n_herr) + 1 and "
                                        "herr_type == 'States.ExecutionTimeout')"),
        ("C06:cancel-passes-error", "implies(old(isdict(error) and istrue(error)), n_herr == old(n_herr) + 1 and "
                                    "same(herr_type, old(error.get('errorType'))))"),
        ("C03:canceller-released", "released"),
        ("C01:one-outcome", "%s or %s or %s" % (SUCCESS_NEXT, SUCCESS_END, FAILED)),
    ])


def choice_contract(fixed=True):
    return base("asl_state_Choice", raises={"ParameterPathFailure": None}, ensures=[
        ("C03:handed-over", "acked or held or cont"),
        ("C01:choice-output", "implies(%s, same(at_snapshot('pub_heap', event['data']), "
                              "old(io_only_output(state, data, context))))" % SUCCESS_NEXT),
    ])


ALL = {
    "asl_state_Pass": pass_contract, "asl_state_Succeed": succeed_contract, "asl_state_Fail": fail_contract,
    "asl_state_Task": task_contract, "asl_state_Task_delegate": task_delegate_contract,
    "asl_state_Task_delegate.<locals>.on_response": on_response_contract,
    "asl_state_Wait": wait_contract, "asl_state_Wait.<locals>.on_timeout": on_timeout_contract,
}


def setup(P):
    """Register everything the handler contracts need on a Property."""
    P.use_contracts("arn", "engine")
    E.register_paths_abstract(P.reg)
    E.register_notify_callees(P.reg)
    externals(P.reg)
    P.spec_module("specs/asl.py")


def add_handlers(P, tags, only=None):
    """Verify the state handlers, keeping the clauses tagged for one of `tags` (plus all untagged obligations)."""
    import re
    for k, f in ALL.items():
        if only is not None and k not in only:
            continue
        c = f()
        if tags is not None:
            labels = [l for l, _, _ in c.ensures]
            if not any(set(re.findall(r"C\d\d", l.split(":")[0])) & set(tags) for l in labels if ":" in l):
                continue
        P.verify(E.NOTIFY + k, c, tags=tags)
    if only is None or "handle_terminal_state" in only:
        c = handle_terminal_state_contract()
        labels = [l for l, _, _ in c.ensures]
        if tags is None or any(set(re.findall(r"C\d\d", l.split(":")[0])) & set(tags) for l in labels if ":" in l):
            P.verify(c.key, c, tags=tags, timeout=30)


# --------------------------------------------------------------------------------------------------------------------
# notify.<locals>.handle_terminal_state on its REAL body (C02 / C03 / C05 / C06 / C09 / C15): where a terminal state's
# event goes.  Its callees are seen through a scope of their own: end_execution / check_pending_results /
# update_execution_history / acknowledge as ghost-logged externals, the closures handle_error and
# asl_state_collect_results as contracted units that may do anything to the effect ghosts (their own contracts are
# elsewhere / assumed), so every clause below is about the DIRECT calls of this function.
# --------------------------------------------------------------------------------------------------------------------
def handle_terminal_state_contract():
    from pyvc.contracts import Registry
    from contracts import engine as E
    sc = Registry()
    for g, t in (("tn_end", "int"), ("t_end_event", "val"), ("t_end_type", "val"), ("tn_cpr", "int"), ("t_cpr_arn", "val"), ("tn_hist", "int"),
                 ("t_hist_type", "val"), ("t_hist_arn", "val"), ("tn_ack", "int"), ("t_ack_id", "val"), ("t_ack_nend", "int"),
                 ("tn_herr", "int"), ("tn_collect", "int"), ("t_collect_type", "val")):
        sc.ghost(g, t)
    sc.external("self.logger.*", ["msg"], modifies=None, result_type="none")
    sc.external("self.end_execution", ["state_machine", "state_type", "event"], modifies="ALL", preserves="PROTECTED", result_type="none",
                ghost={"tn_end": "tn_end + 1", "t_end_event": "event", "t_end_type": "state_type"})
    sc.external("self.check_pending_results", ["execution_arn"], modifies="ALL", preserves="PROTECTED", result_type="none",
                ghost={"tn_cpr": "tn_cpr + 1", "t_cpr_arn": "execution_arn"})
    sc.external("self.update_execution_history", ["state_machine", "execution_arn", "update_type", "details"],
                # writes the execution stores and this execution's history list, nothing else (its own contract: C09)
                modifies=["self.executions", "self.execution_history",
                          ("self.execution_history[execution_arn]", "execution_arn in self.execution_history")],
                result_type="none",
                ghost={"tn_hist": "tn_hist + 1", "t_hist_type": "update_type", "t_hist_arn": "execution_arn"})
    sc.external("self.event_dispatcher.acknowledge", ["id"], modifies=None, result_type="none",
                ghost={"tn_ack": "tn_ack + 1", "t_ack_id": "id", "t_ack_nend": "tn_end + tn_cpr"})
    sc.external("json.dumps", ["obj"], modifies=None, result_type="str")
    # (ghost_modifies=[]: the t* ghosts log the DIRECT calls of handle_terminal_state only)
    sc.contract(E.NOTIFY + "handle_error", env=E.NOTIFY_ENV, ghost={"tn_herr": "tn_herr + 1"}, modifies="ALL", preserves="PROTECTED",
                raises={}, ghost_modifies=[])
    sc.contract(E.NOTIFY + "asl_state_collect_results", env=E.NOTIFY_ENV, ghost={"tn_collect": "tn_collect + 1", "t_collect_type": "state_type"},
                modifies="ALL", preserves="PROTECTED", raises={}, ghost_modifies=[])
    ARN = "context['Execution']['Id']"
    BR = "('Branch' in context['State'])"
    ERRV = "(isdict(event['data']) and istrue(event['data'].get('Error')))"
    TERM = "(isdict(event['data']) and event['data'].get('Error') == 'Task.Terminated')"
    c = Contract(
        E.NOTIFY + "handle_terminal_state", env=E.NOTIFY_ENV,
        types={"state_type": "str", "event": "dict", "id": "any"},
        requires=E.WF_EVENT + E.WF_SELF + E.SEP_SELF_EVENT + [
            "same(context, event['context'])", "isjson(event['data']) or isnone(event['data'])", "isobj(self.event_dispatcher)",
            "implies(%s, islist(context['State']['Branch']) and seqlen(context['State']['Branch']) >= 1 and "
            "isdict(context['State']['Branch'][-1]))" % BR,
            "not same(event['data'], context)", "not same(event['data'], context['State'])", "not same(event['data'], event)",
            "not same(event['data'], self.branch_metadata)", "not same(event['data'], context['Execution'])",
            E.hist_is_list("event['context']['Execution']['Id']"),
            "implies(%s, not same(context['State']['Branch'][-1], self.executions) and "
            "not same(context['State']['Branch'][-1], self.execution_history))" % BR,
            # the event's branch stack is not the stored history list of the execution
            "implies(%s and %s in self.execution_history, not same(context['State']['Branch'], self.execution_history[%s]))" % (BR, ARN, ARN)],
        ensures=[
            # C02: a terminal state outside every Parallel / Map ends the execution, exactly once from here ...
            ("C01,C02:top-level-terminal-ends-the-execution", "implies(not old(%s) and not old(%s), tn_end == old(tn_end) + 1 and "
                                                              "tn_cpr == old(tn_cpr) and same(t_end_event, event) and t_end_type == state_type)" % (BR, TERM)),
            # ... also when what terminates it is a cancelled task (a synchronous child whose parent gave up: C15) and the
            # execution holds no join state
            ("C02,C15:terminated-task-without-join-state-ends-the-execution",
             "implies(not old(%s) and old(%s) and not old(%s in self.branch_metadata), tn_end == old(tn_end) + 1 and tn_cpr == old(tn_cpr))" % (BR, TERM, ARN)),
            # C06: a task cancelled by a failure elsewhere only tidies the join state (the execution was already ended)
            ("C02,C06:terminated-task-with-join-state-only-tidies",
             "implies(not old(%s) and old(%s) and old(%s in self.branch_metadata), tn_end == old(tn_end) and tn_cpr == old(tn_cpr) + 1 and "
             "same(t_cpr_arn, old(%s)))" % (BR, TERM, ARN, ARN)),
            # C03: the terminal event is acknowledged once, after the execution's end (or tidy-up) was carried out
            ("C03:top-level-event-acked-after-its-consequences", "implies(not old(%s) and not isnone(id), tn_ack == old(tn_ack) + 1 and same(t_ack_id, id) and "
                                                                 "t_ack_nend == tn_end + tn_cpr and t_ack_nend == old(tn_end) + old(tn_cpr) + 1)" % BR),
            ("C03:no-id-no-ack", "implies(isnone(id) and not old(%s), tn_ack == old(tn_ack))" % BR),
            # C05 / C06: inside a branch the terminal event is handed to the join -- it neither ends the execution nor is it
            # acknowledged here (the join holds it)
            ("C05,C06:branch-terminal-goes-to-the-join", "implies(old(%s) and old('Index' in context['State']['Branch'][-1]), "
                                                         "tn_collect == old(tn_collect) + 1 and t_collect_type == state_type and "
                                                         "tn_herr == old(tn_herr))" % BR),
            ("C05,C06:branch-terminal-does-not-end-the-execution-itself", "implies(old(%s), tn_collect > old(tn_collect) or tn_herr > old(tn_herr) or "
                                                                          "tn_end == old(tn_end) + 1)" % BR),
            # C09: a branch's last state logs StateExited with its output unless it ends in an error
            ("C09:branch-exit-logged-unless-error", "implies(old(%s) and not old(%s) and tn_collect == old(tn_collect) + 1, "
                                                    "t_hist_type == state_type + 'StateExited' and same(t_hist_arn, old(%s)))" % (BR, ERRV, ARN)),
        ],
        raises={"AttributeError": None}, xensures={},
        covers_exit=[("top-level-end", "tn_end == old(tn_end) + 1 and tn_ack == old(tn_ack) + 1"),
                     ("terminated-child", "tn_end == old(tn_end) + 1 and old(%s)" % TERM),
                     ("to-join", "tn_collect == old(tn_collect) + 1")],
        protected=["self", "event", "context", "context['State']", "context['Execution']", "self.branch_metadata", "self.event_dispatcher",
                   "state_machine", "state", "context['State']['Branch']", "context['State']['Branch'][-1]"],
        modifies="ALL")
    c.scope = sc
    return c
