"""
Contracts for the bundled States Language validator (statelint/*.py) on the REAL method bodies (C18):
"the validator itself reports problems rather than raising, for any JSON value" -- totality obligations: no
exception may escape, whatever JSON value is handed in.
"""
from pyvc.contracts import Contract, LoopContract

J = "statelint/j2119.py::"
SL = "statelint/statelint.py::"


def externals(reg):
    reg.external("JSONPathChecker", [], modifies=None, fresh_result="obj")
    reg.external(".is_path", ["self", "s"], modifies=None, result_type="bool",
                 assumes=["JSONPathChecker.is_path / is_reference_path are total predicates (regular-expression matches on str(s))"])
    reg.external(".is_reference_path", ["self", "s"], modifies=None, result_type="bool")


def value_check_contract():
    return Contract(
        J + "FieldTypeConstraint.value_check", types={"self": "obj", "value": "json", "path": "str", "problems": "list"},
        requires=["isstr(self.type)", "not same(problems, value)"],
        ensures=[("C18:problems-only-grow", "seqlen(problems) >= old(seqlen(problems))")],
        raises={}, modifies=["problems"])


def report_contract():
    return Contract(
        J + "FieldTypeConstraint.report", types={"self": "obj", "path": "str", "value": "json", "message": "str", "problems": "list"},
        ensures=[("C18:one-problem-reported", "seqlen(problems) == old(seqlen(problems)) + 1")], raises={}, modifies=["problems"])


def states_all_contract():
    return Contract(
        SL + "StateNode.check_States_ALL", types={"self": "obj", "node": "json", "path": "str", "problems": "list"},
        requires=["not same(problems, node)"],
        ensures=[("C18:problems-only-grow", "seqlen(problems) >= old(seqlen(problems))")],
        loops={0: LoopContract(invariants=[("problems-only-grow", "islist(problems) and seqlen(problems) >= old(seqlen(problems))")],
                               modifies=["problems"])},
        raises={}, modifies=["problems"])


def add_next_contract():
    return Contract(
        SL + "StateNode.add_next", types={"self": "obj", "node": "dict", "path": "str", "field": "str", "problems": "list"},
        requires=["islist(self.current_states_node)", "islist(self.current_states_incoming)",
                  "seqlen(self.current_states_node) == seqlen(self.current_states_incoming)",
                  "forall(lambda i: implies(0 <= i and i < seqlen(self.current_states_node), isdict(self.current_states_node[i]) and "
                  "islist(self.current_states_incoming[i])))",
                  "not same(problems, self.current_states_node)", "not same(problems, self.current_states_incoming)"],
        ensures=[
            # a Next / Default that names no state of the enclosing States object is reported (dangling transition)
            ("C18:dangling-target-reported", "implies(old(isstr(node.get(field)) and istrue(node.get(field))) and old(seqlen(self.current_states_node)) > 0 "
                                             "and not old(node.get(field) in self.current_states_node[seqlen(self.current_states_node) - 1]), "
                                             "seqlen(problems) == old(seqlen(problems)) + 1)"),
        ],
        raises={}, modifies="ALL", protected=["self", "node", "self.current_states_node"])
