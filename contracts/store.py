"""
Contracts for asl_workflow_engine/store.py on the REAL method bodies (C20).

JSONStore is verified against the abstract view `self.store` (a dict): every mutation writes the whole view through
json.dump to the file it was opened from.  RedisStore: key prefixing of every server call, the prefix inverse, cache
invalidation and the capacity bound of the client-side cache.  Redis / pottery themselves are assumed (A2).
"""
from pyvc.contracts import Contract, LoopContract

ST = "asl_workflow_engine/store.py::"


def externals(reg):
    for g, t in (("n_open", "int"), ("open_name", "val"), ("open_mode", "val"), ("n_dump", "int"), ("dump_obj", "val"),
                 ("dump_heap", "heap"), ("dump_fp", "val"), ("open_fp", "val"), ("n_redis", "int"), ("redis_key", "val"),
                 ("redis_op", "val"), ("redis_arg", "val"), ("iter_src", "val")):
        reg.ghost(g, t)
    reg.external("self.logger.*", ["msg"], modifies=None, result_type="none")
    reg.external("open", ["name", "mode"], modifies=None, result_type="fn", raises={"IOError": None},
                 ghost={"n_open": "n_open + 1", "open_name": "name", "open_mode": "mode", "open_fp": "retval"})
    reg.external("json.dump", ["obj", "fp"], modifies=None, result_type="none", raises={},
                 ghost={"n_dump": "n_dump + 1", "dump_obj": "obj", "dump_heap": "__heap__", "dump_fp": "fp"},
                 assumes=["json.dump serialises a finite JSON tree without raising and without modifying it (A2)"])
    for op in ("delete", "exists", "expire"):
        reg.external("self.redis." + op, ["key", "arg"], modifies=None, result_type="any",
                     ghost={"n_redis": "n_redis + 1", "redis_key": "key", "redis_op": repr(op), "redis_arg": "arg"})
    reg.external("iter", ["obj"], modifies=None, result_type="fn", ghost={"iter_src": "obj"})
    reg.external("next", ["it"], modifies=None, result_type="any", raises={"StopIteration": "isdict(iter_src) and len(iter_src) == 0"},
                 ensures=[("yields-a-key", "isdict(iter_src) and haskey(iter_src, result)")],
                 assumes=["next(iter(d)) yields a key of d (the first in insertion order for an OrderedDict: order not modelled)"])


VIEW = ["isdict(self.store)", "isstr(self.json_store)", "not same(self, self.store)"]
WRITTEN = ("n_dump == old(n_dump) + 1 and same(dump_obj, self.store) and n_open == old(n_open) + 1 and "
           "open_name == self.json_store and open_mode == 'w' and same(dump_fp, open_fp)")


def jsonstore():
    K = ST + "JSONStore."
    cs = {}
    cs["__getitem__"] = Contract(K + "__getitem__", types={"self": "obj", "key": "str"}, requires=VIEW,
                                 ensures=[("C20:reads-the-view", "same(result, self.store[key])")],
                                 raises={"KeyError": "not haskey(self.store, key)"}, modifies=None)
    cs["__contains__"] = Contract(K + "__contains__", types={"self": "obj", "key": "str"}, requires=VIEW,
                                  ensures=[("C20:membership-of-the-view", "iff(istrue(result), haskey(self.store, key))")],
                                  raises={}, modifies=None)
    cs["__setitem__"] = Contract(
        K + "__setitem__", types={"self": "obj", "key": "str", "value": "json"},
        requires=VIEW + ["not same(value, self)", "not same(value, self.store)"],
        ensures=[("C20:last-write-wins", "haskey(self.store, key) and same(self.store[key], value)"),
                 ("C20:other-keys-untouched", "unchanged_except(self.store, key)"),
                 ("C20:written-through", WRITTEN),
                 ("C20:file-holds-new-view", "at_snapshot('dump_heap', haskey(self.store, key) and same(self.store[key], value))")],
        raises={"IOError": None}, modifies=["self.store"])
    cs["__delitem__"] = Contract(
        K + "__delitem__", types={"self": "obj", "key": "str"}, requires=VIEW,
        ensures=[("C20:deleted", "not haskey(self.store, key)"),
                 ("C20:other-keys-untouched", "unchanged_except(self.store, key)"),
                 ("C20:written-through", WRITTEN),
                 ("C20:file-holds-new-view", "at_snapshot('dump_heap', not haskey(self.store, key))")],
        raises={"KeyError": "not haskey(self.store, key)", "IOError": None},
        xensures={"KeyError": [("C20:failed-delete-changes-nothing", "unchanged(self.store) and n_dump == old(n_dump)")]},
        modifies=["self.store"])
    cs["__len__"] = Contract(K + "__len__", types={"self": "obj"}, requires=VIEW,
                             ensures=[("C20:length-of-the-view", "result == len(self.store)")], raises={}, modifies=None)
    return cs


RS = ["isstr(self.key)"]


def redisstore():
    K = ST + "RedisStore."
    cs = {}
    cs["_remove_prefix"] = Contract(
        K + "_remove_prefix", types={"self": "obj", "key": "str"}, requires=RS,
        ensures=[("C20:prefix-inverse", "implies(key.startswith(self.key + ':'), self.key + ':' + result == key)"),
                 ("C20:foreign-key-untouched", "implies(not key.startswith(self.key + ':'), result == key)")],
        raises={}, modifies=None)
    for m, op in (("__delitem__", "delete"), ("__contains__", "exists"), ("set_ttl", "expire")):
        types = {"self": "obj", "key": "str"}
        ens = [("C20:server-key-is-prefixed", "n_redis == old(n_redis) + 1 and redis_op == %r and redis_key == self.key + ':' + key" % op)]
        if m == "set_ttl":
            types["ttl"] = "any"
            ens.append(("C20:ttl-passed-through", "same(redis_arg, ttl)"))
        cs[m] = Contract(K + m, types=types, requires=RS, ensures=ens, raises={}, modifies=None)
    cs["_write_to_cache"] = Contract(
        K + "_write_to_cache", types={"self": "obj", "key": "str", "value": "json"},
        requires=["isnone(self.cache) or isdict(self.cache)", "isint(self.cache_size)", "self.cache_size >= 1",
                  "implies(isdict(self.cache), len(self.cache) <= self.cache_size)", "not same(self, self.cache)",
                  "not same(value, self.cache)"],
        ensures=[("C20:cache-never-exceeds-capacity", "implies(isdict(self.cache), len(self.cache) <= self.cache_size)"),
                 ("C20:disabled-cache-untouched", "implies(old(isnone(self.cache)), same(result, value) and isnone(self.cache))"),
                 ("C20:returns-the-value", "same(result, value)")],
        # that `del self.cache[oldest]` cannot raise KeyError is left undecided by the solvers (incomplete seq theory);
        # it is not claimed: the exceptional exit is permitted here
        raises={"KeyError": None}, modifies=["self.cache"],
        assumes=["values are plain JSON here (the RedisDict / RedisList copy branches need pottery: A2)"])
    return cs
