"""
Contracts for the Choice rule operators: closures nested in
StateEngine.notify.<locals>.asl_state_Choice.<locals>.choose (C14).

Each operator closure sees `variable` (the value located by Variable, or the sentinel False when the path matched
nothing), `path_match_failed` and `next` (the rule's Next, or True inside And/Or/Not); it returns `next` on a match
and None otherwise.  An exception raised inside an operator is caught by choose() and means "no match"; so the
exceptional exits carry the obligation that the specification says no-match as well.
"""
from pyvc.contracts import Contract
from contracts import engine as E

CH = E.NOTIFY + "asl_state_Choice.<locals>.choose.<locals>."

ENV = dict(E.NOTIFY_ENV)
ENV.update({"variable": "any", "path_match_failed": "bool", "next": "any", "choice": "dict", "input": "any"})

PRE = ["istrue(next)", "isstr(next) or next == True",
       # the sentinel convention of choose(): a missing Variable is represented by False
       "implies(path_match_failed, variable == False and isbool(variable))",
       "isjson(variable)", "isjson(value)"]

NUM = {"NumericEquals": "==", "NumericGreaterThan": ">", "NumericGreaterThanEquals": ">=", "NumericLessThan": "<",
       "NumericLessThanEquals": "<="}
STR = {"StringEquals": "==", "StringGreaterThan": ">", "StringGreaterThanEquals": ">=", "StringLessThan": "<",
       "StringLessThanEquals": "<="}
TS = {"TimestampEquals": "==", "TimestampGreaterThan": ">", "TimestampGreaterThanEquals": ">=", "TimestampLessThan": "<",
      "TimestampLessThanEquals": "<="}

EXC = {"AttributeError": None, "TypeError": None, "ValueError": None, "IndexError": None, "KeyError": None}


def op_contract(name, spec, raises=None, extra_pre=None):
    xens = {k: [("C14:%s-raise-means-no-match" % name, "not (%s)" % spec)] for k in (raises or {})}
    return Contract(
        CH + "asl_choice_" + name, env=ENV, types={"value": "any"},
        requires=PRE + (extra_pre or []),
        ensures=[("C14:%s-matches-iff" % name, "iff(istrue(result), %s)" % spec),
                 ("C14:%s-returns-next" % name, "implies(istrue(result), same(result, next))"),
                 ("C14:%s-else-none" % name, "implies(not istrue(result), isnone(result))")],
        raises=dict(raises or {}), xensures=xens, modifies=None)


def all_ops():
    ops = {}
    ops["BooleanEquals"] = op_contract("BooleanEquals", "cmp_bool(variable, path_match_failed, value)")
    for n, rel in NUM.items():
        ops[n] = op_contract(n, "both_num(variable, path_match_failed, value) and real(variable) %s real(value)" % rel)
    for n, rel in STR.items():
        ops[n] = op_contract(n, "both_str(variable, path_match_failed, value) and variable %s value" % rel)
    ops["CaseInsensitiveStringEquals"] = op_contract(
        "CaseInsensitiveStringEquals", "both_str(variable, path_match_failed, value) and lower_ascii(variable) == lower_ascii(value)",
        raises={"AttributeError": None})
    # timestamps compare by the INSTANT they denote (C08 proves the parser computes it); text that does not parse
    # makes the operator raise, which choose() turns into "no match"
    for n, rel in TS.items():
        ops[n] = op_contract(n, "both_str(variable, path_match_failed, value) and RFC3339_OK(variable) and RFC3339_OK(value) "
                                "and real(INSTANT(variable)) %s real(INSTANT(value))" % rel, raises=dict(EXC))
    # StringMatches: the pattern semantics go through fnmatch (external: bounded stand-in natives/c14.py); what is
    # proved here is the type discipline -- only a string Variable can match a string pattern
    c = op_contract("StringMatches", "False", raises=dict(EXC))
    from pyvc.contracts import _clauses
    c.ensures = _clauses([("C14:StringMatches-only-strings", "implies(istrue(result), both_str(variable, path_match_failed, value))"),
                          ("C14:StringMatches-returns-next", "implies(istrue(result), same(result, next))")])
    c.xensures = {}
    ops["StringMatches"] = c
    # type tests report the type facts
    ops["IsBoolean"] = op_contract("IsBoolean", "(not path_match_failed) and (isbool(variable) == value)", extra_pre=["isbool(value)"])
    ops["IsNull"] = op_contract("IsNull", "isnone(variable) == value", extra_pre=["isbool(value)"])
    ops["IsNumeric"] = op_contract("IsNumeric", "isnum(variable) == value", extra_pre=["isbool(value)"])
    ops["IsString"] = op_contract("IsString", "isstr(variable) == value", extra_pre=["isbool(value)"])
    ops["IsPresent"] = op_contract("IsPresent", "(not path_match_failed) == value", extra_pre=["isbool(value)"])
    return ops
