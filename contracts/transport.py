"""
Contracts for the messaging path (C19): EventDispatcher.publish / acknowledge / dispatch and the AMQP mapping in
Producer.send (both transports), on the REAL bodies.  pika, the broker and the Message class are externals.
"""
from pyvc.contracts import Contract, Registry

ED = "asl_workflow_engine/event_dispatcher.py::"
AMQP = {"asyncio": "asl_workflow_engine/amqp_0_9_1_messaging_asyncio.py::", "blocking": "asl_workflow_engine/amqp_0_9_1_messaging.py::"}

BP = ["headers", "content_type", "content_encoding", "delivery_mode", "priority", "correlation_id", "reply_to", "expiration",
      "message_id", "timestamp", "type", "user_id", "app_id", "cluster_id"]


def externals(reg):
    for g, t in ([("n_bp", "int"), ("n_basic_publish", "int"), ("pub_exchange", "val"), ("pub_routing_key", "val"), ("pub_body", "val"),
                  ("pub_properties", "val"), ("pub_mandatory", "val"), ("n_send", "int"), ("send_msg", "val"), ("send_heap", "heap"),
                  ("send_threadsafe", "val"), ("n_msg_ack", "int"), ("msg_ack_multiple", "val"), ("msg_ack_of", "val"),
                  ("n_notify", "int"), ("notify_item", "val"), ("notify_id", "val"), ("notify_redelivered", "val")]
                 + [("bp_" + k, "val") for k in BP]):
        reg.ghost(g, t)
    reg.external("self.logger.*", ["msg"], modifies=None, result_type="none")
    reg.external("pika.BasicProperties", BP, modifies=None, result_type="fn",
                 ghost=dict([("n_bp", "n_bp + 1")] + [("bp_" + k, k) for k in BP]))
    reg.external("self.session.channel.basic_publish", ["exchange", "routing_key", "body", "properties", "mandatory"],
                 modifies=None, result_type="none",
                 ghost={"n_basic_publish": "n_basic_publish + 1", "pub_exchange": "exchange", "pub_routing_key": "routing_key",
                        "pub_body": "body", "pub_properties": "properties", "pub_mandatory": "mandatory"})
    reg.external("self.event_queue_producer.send", ["message", "threadsafe"], modifies=None, result_type="none",
                 ghost={"n_send": "n_send + 1", "send_msg": "message", "send_heap": "__heap__", "send_threadsafe": "threadsafe"})
    reg.external("message.acknowledge", ["multiple"], modifies=None, result_type="none",
                 ghost={"n_msg_ack": "n_msg_ack + 1", "msg_ack_multiple": "multiple"})
    reg.external("self.state_engine.notify", ["event", "id", "redelivered"], modifies="ALL", preserves="PROTECTED", result_type="none",
                 raises={"Exception*": None},
                 ghost={"n_notify": "n_notify + 1", "notify_item": "event", "notify_id": "id", "notify_redelivered": "redelivered"})
    reg.external("Message", ["body", "properties", "content_type", "expiration"], modifies=None, fresh_result="obj",
                 assumes=["Message(...) (bound at run time from the messaging module) returns a new message object"])
    reg.external("self.state_engine.task_dispatcher.schedule_orphaned_response_handler", [], modifies=None, result_type="none")


EXP = "message.expiration"


def send_publish_contract(which):
    return Contract(
        AMQP[which] + "Producer.send.<locals>.publish",
        env={"self": "obj", "message": "obj", "threadsafe": "any"},
        requires=["isobj(self.session)", "isobj(self.session.channel)", "isnone(%s) or isnum(%s) or isstr(%s)" % (EXP, EXP, EXP)],
        ensures=[
            # C19: a sent message arrives with its body, subject (routing key), properties, correlation id, reply-to intact
            ("C19:published-once", "n_basic_publish == old(n_basic_publish) + 1 and n_bp == old(n_bp) + 1"),
            ("C19:routing-key-is-subject", "same(pub_routing_key, old(message.subject if istrue(message.subject) else self.subject))"),
            ("C19:body-and-exchange", "same(pub_body, old(message.body)) and same(pub_exchange, old(self.name)) and "
                                      "same(pub_mandatory, old(message.mandatory))"),
            ("C19:properties-passed-through", "same(bp_headers, old(message.properties)) and same(bp_correlation_id, old(message.correlation_id)) "
                                              "and same(bp_reply_to, old(message.reply_to)) and same(bp_message_id, old(message.message_id)) "
                                              "and same(bp_content_type, old(message.content_type))"),
            # ... and a non-negative integer expiration (as a decimal string), or none
            ("C19:no-expiration-stays-none", "implies(old(isnone(%s)), isnone(bp_expiration))" % EXP),
            ("C19:numeric-expiration-truncated", "implies(old(isnum(%s)) and old(real(%s)) >= 0, "
                                                 "bp_expiration == int_to_str(trunc(old(real(%s)))))" % (EXP, EXP, EXP)),
            ("C19:negative-expiration-is-zero", "implies(old(isnum(%s)) and old(real(%s)) < 0, bp_expiration == '0')" % (EXP, EXP)),
            ("C19:expiration-is-string-when-set", "implies(old(not isnone(%s)), isstr(bp_expiration))" % EXP),
        ],
        raises={"OverflowError": None}, modifies=None,
        assumes=["float() of an infinite value raises OverflowError, which Producer.send does not catch (DESIGN.md C19: recorded, "
                 "not asserted); floats are reals"])


def publish_contract():
    return Contract(
        ED + "EventDispatcher.publish", types={"self": "obj", "item": "json", "threadsafe": "any", "use_shared_queue": "any"},
        requires=["isstr(self.queue_name)", "isstr(self.instance_queue_name)", "isobj(self.event_queue_producer)"],
        ensures=[
            # C19: start events (use_shared_queue) go to the shared queue, every other event to this instance's queue
            ("C19:sent-once", "n_send == old(n_send) + 1"),
            ("C19:shared-queue-iff-asked", "at_snapshot('send_heap', send_msg.subject) == "
                                           "(old(self.queue_name) if old(istrue(use_shared_queue)) else old(self.instance_queue_name))"),
            ("C19,C04:fresh-message-id", "at_snapshot('send_heap', isstr(send_msg.message_id))"),
            ("C19:threadsafe-passed", "same(send_threadsafe, threadsafe)"),
        ],
        raises={}, modifies=None)


def acknowledge_contract():
    return Contract(
        ED + "EventDispatcher.acknowledge", types={"self": "obj", "id": "any"},
        requires=["isdict(self.unacknowledged_messages)"],
        ensures=[
            # C03 / C19: acknowledging a message acknowledges that delivery and no other, at most once
            ("C03,C19:removed", "not (id in self.unacknowledged_messages)"),
            ("C03,C04,C19:others-kept", "unchanged_except(self.unacknowledged_messages, id)"),
            ("C03,C04,C19:single-delivery-ack", "implies(n_msg_ack == old(n_msg_ack) + 1, msg_ack_multiple == False)"),
            ("C03,C19:at-most-one-broker-ack", "n_msg_ack == old(n_msg_ack) or n_msg_ack == old(n_msg_ack) + 1"),
            ("C03,C19:unknown-id-is-a-no-op", "implies(not old(id in self.unacknowledged_messages), n_msg_ack == old(n_msg_ack))"),
        ],
        raises={}, modifies=["self.unacknowledged_messages"])


def dispatch_contract():
    return Contract(
        ED + "EventDispatcher.dispatch", types={"self": "obj", "message": "obj"},
        requires=["isdict(self.unacknowledged_messages)", "isobj(self.state_engine)", "isbytes(message.body)",
                  "not same(self.unacknowledged_messages, message)"],
        ensures=[
            # C18 / C03: an event the engine cannot interpret is acknowledged -- that delivery and no other -- and the
            # dispatcher keeps serving; a good one is handed to notify with its message id and redelivered flag (C04)
            ("C03,C18,C19:poison-acks-single-delivery", "implies(n_msg_ack == old(n_msg_ack) + 1, msg_ack_multiple == False)"),
            ("C03,C18,C19:at-most-one-direct-ack", "n_msg_ack == old(n_msg_ack) or n_msg_ack == old(n_msg_ack) + 1"),
            ("C04,C19:notify-gets-id-and-flag", "implies(n_notify == old(n_notify) + 1, same(notify_id, old(message.message_id)) and "
                                                "same(notify_redelivered, old(message.redelivered)))"),
            ("C03,C18:handled-or-acked", "n_notify == old(n_notify) + 1 or n_msg_ack == old(n_msg_ack) + 1"),
        ],
        protected=["self", "message", "self.unacknowledged_messages", "self.state_engine"],
        raises={}, modifies="ALL")


def message_ack_contract(which):
    """Message.acknowledge.<locals>.ack (both transports): acknowledging a message acknowledges that delivery and no
    other -- the broker is told this message's delivery tag with multiple unset; a message that is not a delivery
    (tag 0: a Basic.Return'ed one) tells the broker nothing; multiple=True is the session-wide JMS-style acknowledge."""
    sc = Registry()
    for g, t in (("n_back", "int"), ("back_tag", "val"), ("back_multiple", "val")):
        sc.ghost(g, t)
    sc.external("self._channel.basic_ack", ["delivery_tag", "multiple"], modifies=None, result_type="none",
                ghost={"n_back": "n_back + 1", "back_tag": "delivery_tag", "back_multiple": "multiple"})
    c = Contract(
        AMQP[which] + "Message.acknowledge.<locals>.ack", env={"self": "obj", "multiple": "any", "threadsafe": "any"},
        requires=["isint(self._delivery_tag) or isnone(self._delivery_tag)", "implies(isint(self._delivery_tag), self._delivery_tag >= 0)"],
        ensures=[
            ("C03,C19:single-ack-names-this-delivery", "implies(not istrue(multiple) and istrue(self._delivery_tag), n_back == old(n_back) + 1 and "
                                                       "same(back_tag, self._delivery_tag) and not istrue(back_multiple))"),
            ("C03,C19:not-a-delivery-acks-nothing", "implies(not istrue(multiple) and not istrue(self._delivery_tag), n_back == old(n_back))"),
            ("C19:multiple-is-session-wide", "implies(istrue(multiple), n_back == old(n_back) + 1 and back_tag == 0 and back_multiple == True)"),
        ],
        raises={}, modifies=None,
        covers_exit=[("single", "not istrue(multiple) and n_back == old(n_back) + 1"), ("returned-message", "n_back == old(n_back)")])
    c.scope = sc
    return c


def scoped(c):
    """The same contract carrying this module's externals as its own scope (for properties whose other units register a
    different view of message.acknowledge / Message)."""
    sc = Registry()
    externals(sc)
    c.scope = sc
    return c


# --------------------------------------------------------------------------------------------------------------------
# C08: the timer primitives every Wait / Task timeout / retry delay goes through (Connection.set_timeout / clear_timeout,
# both transports): the callback is armed once, for exactly delay/1000 seconds (never less; a negative delay is zero),
# and clearing removes exactly the timer that was named.
# --------------------------------------------------------------------------------------------------------------------
def timer_contracts(which):
    later = {"asyncio": "self.connection._adapter_call_later", "blocking": "self.connection.call_later"}[which]
    remove = {"asyncio": "self.connection._adapter_remove_timeout", "blocking": "self.connection.remove_timeout"}[which]

    def scope():
        sc = Registry()
        for g, t in (("n_later", "int"), ("later_delay", "val"), ("later_cb", "val"), ("later_id", "val"), ("n_remove", "int"), ("remove_id", "val")):
            sc.ghost(g, t)
        sc.external(later, ["delay", "callback"], modifies=None, result_type="fn",
                    ghost={"n_later": "n_later + 1", "later_delay": "delay", "later_cb": "callback", "later_id": "result"})
        sc.external(remove, ["timeout_id"], modifies=None, result_type="none", ghost={"n_remove": "n_remove + 1", "remove_id": "timeout_id"})
        return sc
    a = Contract(
        AMQP[which] + "Connection.set_timeout", types={"self": "obj", "callback": "any", "delay": "num"},
        requires=["isobj(self.connection)"],
        ensures=[
            ("C08:armed-once-with-this-callback", "n_later == old(n_later) + 1 and same(later_cb, callback) and same(result, later_id)"),
            ("C08:never-early", "isnum(later_delay) and real(later_delay) * 1000 == (real(delay) if real(delay) >= 0 else 0)"),
            ("C08:nothing-cleared", "n_remove == old(n_remove)"),
        ],
        raises={}, modifies=None)
    a.scope = scope()
    b = Contract(
        AMQP[which] + "Connection.clear_timeout", types={"self": "obj", "timeout_id": "any"},
        requires=["isobj(self.connection)"],
        ensures=[("C08:clears-exactly-the-named-timer", "n_remove == old(n_remove) + 1 and same(remove_id, timeout_id) and n_later == old(n_later)")],
        raises={}, modifies=None)
    b.scope = scope()
    return [a, b]
