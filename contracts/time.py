"""Contracts for the RFC 3339 parser (C08, C14 timestamp operators)."""

SE = "asl_workflow_engine/state_engine.py::"

# date-time with a numeric offset or Z, upper-case T/Z (the form the engine itself writes with isoformat())
DT = r"[0-9]{4}-[0-9]{2}-[0-9]{2}T[0-9]{2}:[0-9]{2}:[0-9]{2}(\.[0-9]+)?"
RFC3339_Z = DT + "Z"
RFC3339_PLUS = DT + r"\+[0-9]{2}:[0-9]{2}"
RFC3339_MINUS = DT + r"-[0-9]{2}:[0-9]{2}"
RFC3339 = DT + r"(Z|[+-][0-9]{2}:[0-9]{2})"

INSTANT = "ts(result) == NAIVE(rfc3339_fields_text(rfc3339)) - rfc3339_offset_seconds(rfc3339)"


def parser_contract(numeric_offsets=False):
    """C08: every RFC 3339 timestamp, in any legal offset notation, denotes its true instant.  One clause per
    notation; the grammar enters through the shape lemmas (lemmas/c08_time.py), so these queries only see the
    fixed-length tail.  The two numeric-offset clauses are left undecided by z3 and cvc5 (60 s, both trees) and are
    therefore NOT part of the deductive claim: natives/c08.py enumerates every offset instead (bounded stand-in)."""
    from pyvc.contracts import Contract
    ens = [("C08,C14:true-instant/Z", "implies(zulu_shape(rfc3339), %s)" % INSTANT)]
    if numeric_offsets:
        ens += [("C08,C14:true-instant/plus", "implies(numoffset_shape(rfc3339, '+'), %s)" % INSTANT),
                ("C08,C14:true-instant/minus", "implies(numoffset_shape(rfc3339, '-'), %s)" % INSTANT)]
    return Contract(
        SE + "parse_rfc3339_datetime", types={"rfc3339": "str"},
        ensures=ens,
        raises={"ValueError": None, "IndexError": None},
        modifies=None,
        assumes=["datetime.strptime / timedelta / timezone / replace(tzinfo=) behave as documented (A2): strptime yields "
                 "the calendar fields of a text in the format (named NAIVE) or raises ValueError",
                 "composition (not machine-checked, modus ponens): grammar => shape (lemmas tail_*) and shape => true "
                 "instant (these clauses)"])


def register(reg, repo):
    c = parser_contract()
    reg.by_key[c.key] = c


def add_lemmas(P):
    P.lemma_module("lemmas/c08_time.py")
    L = "lemmas/c08_time.py::"
    P.lemma(L + "tail_zulu", types={"s": "str"}, requires=["re_full(%r, s)" % RFC3339_Z], label="tail_zulu")
    P.lemma(L + "tail_numoffset", types={"s": "str", "sign": "str"},
            requires=["re_full(%r, s)" % RFC3339_PLUS, "sign == '+'"], label="tail_plus", obl_prefix="tail_plus")
    P.lemma(L + "tail_numoffset", types={"s": "str", "sign": "str"},
            requires=["re_full(%r, s)" % RFC3339_MINUS, "sign == '-'"], label="tail_minus", obl_prefix="tail_minus")
