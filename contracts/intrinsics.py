"""
Contracts for intrinsic function closures nested in
state_engine_paths.evaluate_payload_template.<locals>.evaluate_intrinsic_function (C13), on their REAL bodies.
Each takes the already evaluated argument list; ill-formed calls must fail with IntrinsicFailure and nothing else.
"""
from pyvc.contracts import Contract

IF = "asl_workflow_engine/state_engine_paths.py::evaluate_payload_template.<locals>.evaluate_intrinsic_function.<locals>."
ENV = {"input": "any", "context": "any", "template": "any", "intrinsic": "str", "func": "str", "normalised_func": "str"}
ARGS = ["forall(lambda i: implies(0 <= i and i < seqlen(args), isjson(args[i])))"]
A0, A1 = "args[0]", "args[1]"
ONLY = {"IntrinsicFailure": None}


def c(name, ensures, bad, requires=None):
    """bad: condition (over the arguments) under which the call is ill-formed and must raise IntrinsicFailure"""
    return Contract(IF + "asl_intrinsic_" + name, env=ENV, types={"args": "list"}, requires=ARGS + (requires or []),
                    ensures=ensures + [("C13:%s-well-formed-only" % name, "not (%s)" % bad)],
                    raises=dict(ONLY), xensures={"IntrinsicFailure": [("C13:%s-fails-only-when-ill-formed" % name, bad)]},
                    modifies=None)


def all_intrinsics():
    cs = {}
    cs["ArrayGetItem"] = c(
        "ArrayGetItem", [("C13:ArrayGetItem-value", "same(result, args[0][args[1]])")],
        "seqlen(args) != 2 or not islist(%s) or not (isint(%s) or isbool(%s)) or (%s if isint(%s) else (1 if %s else 0)) < 0 or "
        "(%s if isint(%s) else (1 if %s else 0)) >= seqlen(%s)" % (A0, A1, A1, A1, A1, A1, A1, A1, A1, A0))
    cs["ArrayLength"] = c("ArrayLength", [("C13:ArrayLength-value", "result == seqlen(args[0])")],
                          "seqlen(args) != 1 or not islist(%s)" % A0)
    cs["MathAdd"] = c("MathAdd", [("C13:MathAdd-value", "implies(isint(args[0]) and isint(args[1]), result == args[0] + args[1])")],
                      "seqlen(args) != 2 or not (isint(%s) or isbool(%s)) or not (isint(%s) or isbool(%s))" % (A0, A0, A1, A1))
    cs["ArrayContains"] = c("ArrayContains", [("C13:ArrayContains-is-bool", "isbool(result)")],
                            "seqlen(args) != 2 or not islist(%s)" % A0)
    cs["Array"] = Contract(IF + "asl_intrinsic_Array", env=ENV, types={"args": "list"}, requires=ARGS,
                           ensures=[("C13:Array-is-its-arguments", "same(result, args)")], raises={}, modifies=None)
    cs["UUID"] = Contract(IF + "asl_intrinsic_UUID", env=ENV, types={"args": "list"}, requires=ARGS,
                          ensures=[("C13:UUID-no-arguments", "seqlen(args) == 0 and isstr(result)")],
                          raises=dict(ONLY), xensures={"IntrinsicFailure": [("C13:UUID-fails-only-with-arguments", "seqlen(args) != 0")]},
                          modifies=None)
    cs["Default"] = Contract(IF + "asl_intrinsic_Default", env=ENV, types={"args": "list"}, requires=ARGS,
                             ensures=[("C13:unknown-function-never-returns", "False")], raises=dict(ONLY), modifies=None)
    return cs
