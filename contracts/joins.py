"""Contracts for the join helpers of StateEngine on their REAL bodies (C03, C05, C06)."""
from pyvc.contracts import Contract, LoopContract
from contracts import engine as E

SE = E.SE


def acknowledge_event_list_contract():
    return Contract(
        SE + "StateEngine.acknowledge_event_list", types={"self": "obj", "event_ids": "list"},
        requires=["isobj(self.event_dispatcher)", "isdict(self.event_dispatcher.unacknowledged_messages)",
                  "not same(event_ids, self.event_dispatcher.unacknowledged_messages)", "issued"],
        ensures=[
            # C03: every held id is released (set to None) -- the ids of a completed join are never kept
            ("C03,C05:all-ids-cleared", "forall(lambda j: implies(0 <= j and j < seqlen(event_ids), isnone(event_ids[j])))"),
            ("C03,C05:length-kept", "seqlen(event_ids) == old(seqlen(event_ids))"),
        ],
        loops={0: LoopContract(invariants=[
            ("prefix-cleared", "forall(lambda j: implies(0 <= j and j < idx, isnone(event_ids[j])))"),
            ("length-kept", "seqlen(event_ids) == old(seqlen(event_ids))"),
            ("rest-untouched", "forall(lambda j: implies(idx <= j and j < seqlen(event_ids), same(event_ids[j], old(event_ids[j]))))"),
            ("issued", "issued")],
            modifies=["event_ids"])},
        raises={}, modifies=["event_ids"])
