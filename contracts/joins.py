"""Contracts for the join helpers of StateEngine on their REAL bodies (C03, C05, C06)."""
from pyvc.contracts import Contract, LoopContract
from contracts import engine as E

SE = E.SE


def acknowledge_event_list_contract():
    return Contract(
        SE + "StateEngine.acknowledge_event_list", types={"self": "obj", "event_ids": "list"},
        requires=["isobj(self.event_dispatcher)", "isdict(self.event_dispatcher.unacknowledged_messages)",
                  "not same(event_ids, self.event_dispatcher.unacknowledged_messages)", "issued"],
        ensures=[
            # C03: every held id is released (set to None) -- the ids of a completed join are never kept
            ("C03,C05:all-ids-cleared", "forall(lambda j: implies(0 <= j and j < seqlen(event_ids), isnone(event_ids[j])))"),
            ("C03,C05:length-kept", "seqlen(event_ids) == old(seqlen(event_ids))"),
        ],
        loops={0: LoopContract(invariants=[
            ("prefix-cleared", "forall(lambda j: implies(0 <= j and j < idx, isnone(event_ids[j])))"),
            ("length-kept", "seqlen(event_ids) == old(seqlen(event_ids))"),
            ("rest-untouched", "forall(lambda j: implies(idx <= j and j < seqlen(event_ids), same(event_ids[j], old(event_ids[j]))))"),
            ("issued", "issued")],
            modifies=["event_ids"])},
        raises={}, modifies=["event_ids"])


def get_start_index_contract():
    """The start of the current MaxConcurrency batch, carried in the Branch stack as 'Range': 'start:end'."""
    RNG = "context['State']['Branch'][seqlen(context['State']['Branch']) - 1].get('Range', '0:0')"
    return Contract(
        E.NOTIFY + "get_start_index", env=E.NOTIFY_ENV, types={"context": "dict"},
        requires=["haskey(context, 'State')", "isdict(context['State'])",
                  "implies(haskey(context['State'], 'Branch'), islist(context['State']['Branch']))",
                  "implies(haskey(context['State'], 'Branch') and seqlen(context['State']['Branch']) > 0, "
                  "isdict(context['State']['Branch'][seqlen(context['State']['Branch']) - 1]) and isstr(%s) and "
                  "re_full('[0-9]+:[0-9]+', %s))" % (RNG, RNG)],
        ensures=[
            ("C05:no-branch-starts-at-zero", "implies(not haskey(context['State'], 'Branch') or seqlen(context['State']['Branch']) == 0, result == 0)"),
        ],
        # the numeric reading of 'start:end' (split + int on strings) is left undecided by the solvers: not claimed
        # here, exercised by the bounded join schedules instead
        raises={"ValueError": None, "IndexError": None}, modifies=None)


# --------------------------------------------------------------------------------------------------------------------
# StateEngine.branch_has_terminated on its REAL body, for an event whose execution and fan-out already have their join
# records (the lazy creation after a restart is the other path; it is exercised by the bounded stand-ins only).
# DRAFT, NOT REGISTERED IN ANY PROPERTY: 68 of its 82 obligations discharge, but the clauses that carry C02/C05/C06 (the
# terminated-iff, slot and held-id clauses) and eight no-KeyError obligations stay `unknown` in all three solvers at 30 s
# (18 minutes for the unit), so nothing is claimed from it; the scenarios nested-outer-fails / nested-inner-caught of the
# C05 / C06 stand-ins exercise this function instead.
# --------------------------------------------------------------------------------------------------------------------
def branch_has_terminated_contract():
    from pyvc.contracts import Registry
    from contracts import engine as E
    sc = Registry()
    for g, t in (("b_nack", "int"), ("b_ack_id", "val"), ("b_ncpr", "int"), ("b_cpr_arn", "val"), ("b_ack_ncpr", "int")):
        sc.ghost(g, t)
    sc.external("self.logger.*", ["msg"], modifies=None, result_type="none")
    sc.external("self.event_dispatcher.acknowledge", ["id"], modifies=None, result_type="none",
                ghost={"b_nack": "b_nack + 1", "b_ack_id": "id", "b_ack_ncpr": "b_ncpr"})
    sc.external("self.check_pending_results", ["execution_arn"], modifies="ALL", preserves="PROTECTED", result_type="none",
                ghost={"b_ncpr": "b_ncpr + 1", "b_cpr_arn": "execution_arn"},
                assumes=["check_pending_results does not write the result / id lists of join records (it acknowledges, cancels and "
                         "deletes the execution's entry)"])
    ARN = "context['Execution']['Id']"
    BR = "('Branch' in context['State'])"
    ST = "context['State']['Branch']"
    TOP = "context['State']['Branch'][-1]"
    PAR = "context['State']['Branch'][-2]"
    RES = "self.branch_metadata[%s].results" % ARN
    REC = "%s[%s['ID']]" % (RES, TOP)
    PREC = "%s[%s['ID']]" % (RES, PAR)
    IDX = "%s.get('Index', 0)" % TOP
    HASP = "(seqlen(%s) > 1 and %s['ID'] in %s and istrue(%s))" % (ST, PAR, RES, PREC)
    T_OWN = "istrue(%s.get('terminated'))" % REC
    T_PAR = "(%s and istrue(%s.get('terminated')))" % (HASP, PREC)
    c = Contract(
        E.SE + "StateEngine.branch_has_terminated",
        types={"self": "obj", "state_type": "str", "context": "dict", "id": "any", "timeout": "any"},
        requires=[
            "isdict(context['State'])", "isdict(context['Execution'])", "isstr(%s)" % ARN, "isdict(self.branch_metadata)",
            "isobj(self.event_dispatcher)", "not same(context, self.branch_metadata)", "not same(context['State'], self.branch_metadata)",
            # the event's branch stack: a non-empty list of entries {ID, Index?, Length, Range?}
            "implies(%s, islist(%s) and seqlen(%s) >= 1 and isdict(%s) and isstr(%s['ID']) and "
            "(not ('Index' in %s) or (isint(%s['Index']) and %s['Index'] >= 0)))" % (BR, ST, ST, TOP, TOP, TOP, TOP, TOP),
            "implies(%s and seqlen(%s) > 1, isdict(%s) and isstr(%s['ID']) and isint(%s['Index']) and %s['Index'] >= 0)"
            % (BR, ST, PAR, PAR, PAR, PAR),
            # the join state exists already (type invariant of branch_metadata: an object with a `results` dict of join
            # records {results, ids, state [, terminated]} whose lists have one slot per branch)
            "implies(%s, %s in self.branch_metadata and isobj(self.branch_metadata[%s]) and isdict(%s) and %s['ID'] in %s and "
            "isdict(%s) and islist(%s['results']) and islist(%s['ids']) and %s < seqlen(%s['results']) and %s < seqlen(%s['ids']) and "
            "not same(%s['results'], %s['ids']))" % (BR, ARN, ARN, RES, TOP, RES, REC, REC, REC, IDX, REC, IDX, REC, REC, REC),
            "implies(%s and %s, isdict(%s) and islist(%s['results']) and %s['Index'] < seqlen(%s['results']) and "
            "not same(%s['results'], %s['results']) and not same(%s['results'], %s['ids']) and not same(%s, %s))"
            % (BR, HASP, PREC, PREC, PAR, PREC, PREC, REC, PREC, REC, PREC, REC),
        ],
        ensures=[
            ("C06:outside-every-fan-out-nothing-is-terminated", "implies(not old(%s), result == False and b_nack == old(b_nack) and "
                                                                "b_ncpr == old(b_ncpr))" % BR),
            # C02 / C06: an event is dropped exactly when its own fan-out or the enclosing one carries the terminated mark
            ("C02,C06:terminated-iff-own-or-enclosing-mark", "implies(old(%s), istrue(result) == (old(%s) or old(%s)))" % (BR, T_OWN, T_PAR)),
            # C03 / C06: a dropped event is acknowledged (whatever its state type) and the join state is tidied after that
            ("C03,C06:dropped-event-acknowledged-then-tidied", "implies(old(%s) and istrue(result), b_nack == old(b_nack) + 1 and same(b_ack_id, id) and "
                                                               "b_ncpr == old(b_ncpr) + 1 and same(b_cpr_arn, old(%s)))" % (BR, ARN)),
            ("C05,C06:own-slot-marked-terminated", "implies(old(%s) and istrue(result), old(%s['results'])[old(%s)] == '__TERMINATED__')" % (BR, REC, IDX)),
            # C05: the enclosing fan-out's slot is overwritten only when the enclosing fan-out itself is terminated -- a
            # branch that recovered through the inner state's Catch keeps its place in the outer join
            ("C05:enclosing-slot-kept-unless-enclosing-terminated",
             "implies(old(%s) and old(%s) and not old(%s), same_contents(old(%s['results']), old(%s['results'])))" % (BR, HASP, T_PAR, PREC, PREC)),
            ("C06:enclosing-slot-marked-when-enclosing-terminated",
             "implies(old(%s) and old(%s), old(%s['results'])[old(%s['Index'])] == '__TERMINATED__')" % (BR, T_PAR, PREC, PAR)),
            # C03 / C05: a live event is held by its join (its id stored at its index) unless it is a Map / Parallel state's own
            # event; results are untouched, nothing is acknowledged
            ("C03,C05:live-event-held-by-the-join", "implies(old(%s) and not istrue(result) and state_type != 'Parallel' and state_type != 'Map', "
                                                    "same(old(%s['ids'])[old(%s)], id))" % (BR, REC, IDX)),
            ("C05:live-event-changes-no-result", "implies(old(%s) and not istrue(result), same_contents(old(%s['results']), old(%s['results'])) and "
                                                 "b_nack == old(b_nack) and b_ncpr == old(b_ncpr))" % (BR, REC, REC)),
        ],
        raises={}, covers_exit=[("dropped-by-enclosing-mark", "old(%s) and old(%s) and not old(%s)" % (BR, T_PAR, T_OWN)),
                                ("live-nested", "old(%s) and old(%s) and not istrue(result)" % (BR, HASP))],
        protected=["self", "context", "context['State']", "self.branch_metadata", "self.event_dispatcher", ST, TOP,
                   "self.branch_metadata[%s]" % ARN, RES, REC, "%s['results']" % REC, "%s['ids']" % REC],
        modifies="ALL")
    c.scope = sc
    return c
