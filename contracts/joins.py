"""Contracts for the join helpers of StateEngine on their REAL bodies (C03, C05, C06)."""
from pyvc.contracts import Contract, LoopContract
from contracts import engine as E

SE = E.SE


def acknowledge_event_list_contract():
    return Contract(
        SE + "StateEngine.acknowledge_event_list", types={"self": "obj", "event_ids": "list"},
        requires=["isobj(self.event_dispatcher)", "isdict(self.event_dispatcher.unacknowledged_messages)",
                  "not same(event_ids, self.event_dispatcher.unacknowledged_messages)", "issued"],
        ensures=[
            # C03: every held id is released (set to None) -- the ids of a completed join are never kept
            ("C03,C05:all-ids-cleared", "forall(lambda j: implies(0 <= j and j < seqlen(event_ids), isnone(event_ids[j])))"),
            ("C03,C05:length-kept", "seqlen(event_ids) == old(seqlen(event_ids))"),
        ],
        loops={0: LoopContract(invariants=[
            ("prefix-cleared", "forall(lambda j: implies(0 <= j and j < idx, isnone(event_ids[j])))"),
            ("length-kept", "seqlen(event_ids) == old(seqlen(event_ids))"),
            ("rest-untouched", "forall(lambda j: implies(idx <= j and j < seqlen(event_ids), same(event_ids[j], old(event_ids[j]))))"),
            ("issued", "issued")],
            modifies=["event_ids"])},
        raises={}, modifies=["event_ids"])


def get_start_index_contract():
    """The start of the current MaxConcurrency batch, carried in the Branch stack as 'Range': 'start:end'."""
    RNG = "context['State']['Branch'][seqlen(context['State']['Branch']) - 1].get('Range', '0:0')"
    return Contract(
        E.NOTIFY + "get_start_index", env=E.NOTIFY_ENV, types={"context": "dict"},
        requires=["haskey(context, 'State')", "isdict(context['State'])",
                  "implies(haskey(context['State'], 'Branch'), islist(context['State']['Branch']))",
                  "implies(haskey(context['State'], 'Branch') and seqlen(context['State']['Branch']) > 0, "
                  "isdict(context['State']['Branch'][seqlen(context['State']['Branch']) - 1]) and isstr(%s) and "
                  "re_full('[0-9]+:[0-9]+', %s))" % (RNG, RNG)],
        ensures=[
            ("C05:no-branch-starts-at-zero", "implies(not haskey(context['State'], 'Branch') or seqlen(context['State']['Branch']) == 0, result == 0)"),
        ],
        # the numeric reading of 'start:end' (split + int on strings) is left undecided by the solvers: not claimed
        # here, exercised by the bounded join schedules instead
        raises={"ValueError": None, "IndexError": None}, modifies=None)
