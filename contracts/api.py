"""
Contracts for the REST actions (closures aws_api_* nested in RestAPI.create_app.<locals>.handle_post) on their REAL
bodies, in both front ends (C10).  The stores are dictionaries (C20); aws_error / jsonify build opaque responses;
the response is the pair (body, status).

Clauses: a request answered with an error (status >= 400) leaves the store and every stored record exactly as they
were (heap-level: a record mutated through an alias counts); read-only actions never write; no exception escapes to
the catch-all (which would answer 500 InternalError).
"""
from pyvc.contracts import Contract

MODS = {"asyncio": "asl_workflow_engine/rest_api_asyncio.py::RestAPI.create_app.<locals>.handle_post.<locals>.",
        "blocking": "asl_workflow_engine/rest_api.py::RestAPI.create_app.<locals>.handle_post.<locals>."}

ENV = {"self": "obj", "params": "any", "action": "str", "path": "any", "target": "any", "data": "any"}
ARN = "params.get('stateMachineArn')"
REC = "self.asl_store[params['stateMachineArn']]"
HAS_REC = "(isdict(params) and haskey(params, 'stateMachineArn') and isstr(params['stateMachineArn']) and params['stateMachineArn'] in self.asl_store)"

PRE = ["isdict(self.asl_store)", "isdict(self.executions)", "isdict(self.execution_history)", "not same(self.asl_store, self.executions)",
       # handle_post hands the actions a JSON OBJECT (anything else is replaced by {} before the dispatch)
       "isjson(params)", "isdict(params)", "not same(params, self.asl_store)",
       # type invariant of the store: records are objects with a JSON definition
       "implies(%s, isdict(%s) and haskey(%s, 'definition') and not same(%s, self.asl_store) and not same(%s, params) and "
       "not same(%s, self))" % (HAS_REC, REC, REC, REC, REC, REC)]

ERR = "(istuple(result) and seqlen(result) == 2 and isint(result[1]) and result[1] >= 400)"
STORE_KEPT = "unchanged(self.asl_store) and implies(old(%s), unchanged(old(%s)))" % (HAS_REC, REC)


def externals(reg):
    reg.external("self.logger.*", ["msg"], modifies=None, result_type="none")
    reg.external("aws_error", ["code", "message"], modifies=None, result_type="fn")
    reg.external("jsonify", ["obj"], modifies=None, result_type="fn")
    reg.external("self.asl_store.get_cached_view", ["key", "default"], modifies=None, result_type="any",
                 ensures=[("is-get", "implies(isstr(key) and key in self.asl_store, same(result, self.asl_store[key])) and "
                                     "implies(isstr(key) and not (key in self.asl_store), same(result, default))")],
                 assumes=["get_cached_view(key) is the mapping's get (C20); for the file / in-memory store it returns the stored "
                          "record object itself"])
    reg.external(".validate", ["self", "json"], modifies=None, fresh_result="list",
                 assumes=["StateLint.validate returns a list of problems and does not modify the definition (its totality: C18)"])
    reg.external("valid_state_machine_arn", ["arn"], modifies=None, result_type="bool",
                 ensures=[("only-strings", "implies(result, isstr(arn))")])
    reg.external("valid_role_arn", ["arn"], modifies=None, result_type="bool", ensures=[("only-strings", "implies(result, isstr(arn))")])
    reg.external("valid_execution_arn", ["arn"], modifies=None, result_type="bool", ensures=[("only-strings", "implies(result, isstr(arn))")])


def describe_state_machine(which):
    return Contract(
        MODS[which] + "aws_api_DescribeStateMachine", env=ENV, requires=PRE,
        ensures=[("C10:describe-never-writes", "unchanged(self.asl_store) and implies(old(%s), unchanged(old(%s)))" % (HAS_REC, REC)),
                 ("C10:describe-is-a-pair", "istuple(result) and seqlen(result) == 2"),
                 ("C10:unknown-arn-is-an-error", "implies(not old(%s), %s)" % (HAS_REC, ERR))],
        raises={}, modifies=None)


def delete_state_machine(which):
    return Contract(
        MODS[which] + "aws_api_DeleteStateMachine", env=ENV, requires=PRE,
        ensures=[("C10:error-leaves-store", "implies(%s, %s)" % (ERR, STORE_KEPT)),
                 ("C10:delete-is-visible-at-once", "implies(not %s and old(%s), not (old(params['stateMachineArn']) in self.asl_store))" % (ERR, HAS_REC)),
                 ("C10:delete-touches-only-that-key", "implies(old(%s), unchanged_except(self.asl_store, old(params['stateMachineArn'])))" % HAS_REC)],
        raises={}, modifies=["self.asl_store"])


def update_state_machine(which):
    return Contract(
        MODS[which] + "aws_api_UpdateStateMachine", env=ENV,
        requires=PRE + ["isobj(self.statelint) or isnone(self.statelint)", "isbool(self.validate_asl)"],
        ensures=[("C10:error-leaves-store", "implies(%s, %s)" % (ERR, STORE_KEPT)),
                 ("C10:unknown-arn-is-an-error", "implies(not old(%s), %s)" % (HAS_REC, ERR))],
        raises={}, modifies="ALL", protected=["self", "params", "self.asl_store", "self.executions"])
