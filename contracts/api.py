"""
Contracts for the REST actions (closures aws_api_* nested in RestAPI.create_app.<locals>.handle_post) on their REAL
bodies, in both front ends (C10).  The stores are dictionaries (C20); aws_error / jsonify build opaque responses;
the response is the pair (body, status).

Clauses: a request answered with an error (status >= 400) leaves the store and every stored record exactly as they
were (heap-level: a record mutated through an alias counts); read-only actions never write; no exception escapes to
the catch-all (which would answer 500 InternalError).
"""
from pyvc.contracts import Contract, Registry

MODS = {"asyncio": "asl_workflow_engine/rest_api_asyncio.py::RestAPI.create_app.<locals>.handle_post.<locals>.",
        "blocking": "asl_workflow_engine/rest_api.py::RestAPI.create_app.<locals>.handle_post.<locals>."}

ENV = {"self": "obj", "params": "any", "action": "str", "path": "any", "target": "any", "data": "any"}
ARN = "params.get('stateMachineArn')"
REC = "self.asl_store[params['stateMachineArn']]"
HAS_REC = "(isdict(params) and haskey(params, 'stateMachineArn') and isstr(params['stateMachineArn']) and params['stateMachineArn'] in self.asl_store)"

PRE = ["isdict(self.asl_store)", "isdict(self.executions)", "isdict(self.execution_history)", "not same(self.asl_store, self.executions)",
       # handle_post hands the actions a JSON OBJECT (anything else is replaced by {} before the dispatch)
       "isjson(params)", "isdict(params)", "not same(params, self.asl_store)",
       # type invariant of the store: records are objects with a JSON definition
       "implies(%s, isdict(%s) and haskey(%s, 'definition') and not same(%s, self.asl_store) and not same(%s, params) and "
       "not same(%s, self))" % (HAS_REC, REC, REC, REC, REC, REC)]

ERR = "(istuple(result) and seqlen(result) == 2 and isint(result[1]) and result[1] >= 400)"
STORE_KEPT = "unchanged(self.asl_store) and implies(old(%s), unchanged(old(%s)))" % (HAS_REC, REC)


def externals(reg):
    reg.ghost("n_err", "int")
    reg.ghost("err_code", "val")
    reg.external("self.logger.*", ["msg"], modifies=None, result_type="none")
    reg.external("aws_error", ["code", "message"], modifies=None, result_type="fn",
                 ghost={"n_err": "n_err + 1", "err_code": "code"})
    reg.external("jsonify", ["obj"], modifies=None, result_type="fn")
    reg.external("self.asl_store.get_cached_view", ["key", "default"], modifies=None, result_type="any",
                 ensures=[("is-get", "implies(isdict(self.asl_store) and isstr(key) and key in self.asl_store, same(result, self.asl_store[key])) and "
                                     "implies(isdict(self.asl_store) and isstr(key) and not (key in self.asl_store), same(result, default))"),
                          ("record-or-default", "isdict(result) or same(result, default)")],
                 assumes=["get_cached_view(key) is the mapping's get (C20); for the file / in-memory store it returns the stored "
                          "record object itself; stored records are objects"])
    reg.external(".validate", ["self", "json"], modifies=None, fresh_result="list",
                 assumes=["StateLint.validate returns a list of problems and does not modify the definition (its totality: C18)"])
    reg.external("valid_state_machine_arn", ["arn"], modifies=None, result_type="bool",
                 ensures=[("only-strings", "implies(result, isstr(arn))")])
    reg.external("valid_role_arn", ["arn"], modifies=None, result_type="bool", ensures=[("only-strings", "implies(result, isstr(arn))")])
    reg.external("valid_execution_arn", ["arn"], modifies=None, result_type="bool", ensures=[("only-strings", "implies(result, isstr(arn))")])


def describe_state_machine(which):
    return Contract(
        MODS[which] + "aws_api_DescribeStateMachine", env=ENV, requires=PRE,
        ensures=[("C10:describe-never-writes", "unchanged(self.asl_store) and implies(old(%s), unchanged(old(%s)))" % (HAS_REC, REC)),
                 ("C10:describe-is-a-pair", "istuple(result) and seqlen(result) == 2"),
                 ("C10:unknown-arn-is-an-error", "implies(not old(%s), %s)" % (HAS_REC, ERR))],
        raises={}, modifies=None)


def delete_state_machine(which):
    return Contract(
        MODS[which] + "aws_api_DeleteStateMachine", env=ENV, requires=PRE,
        ensures=[("C10:error-leaves-store", "implies(%s, %s)" % (ERR, STORE_KEPT)),
                 ("C10:delete-is-visible-at-once", "implies(not %s and old(%s), not (old(params['stateMachineArn']) in self.asl_store))" % (ERR, HAS_REC)),
                 ("C10:delete-touches-only-that-key", "implies(old(%s), unchanged_except(self.asl_store, old(params['stateMachineArn'])))" % HAS_REC)],
        raises={}, modifies=["self.asl_store"])


def update_state_machine(which):
    return Contract(
        MODS[which] + "aws_api_UpdateStateMachine", env=ENV,
        requires=PRE + ["isobj(self.statelint) or isnone(self.statelint)", "isbool(self.validate_asl)"],
        ensures=[("C10:error-leaves-store", "implies(%s, %s)" % (ERR, STORE_KEPT)),
                 ("C10:unknown-arn-is-an-error", "implies(not old(%s), %s)" % (HAS_REC, ERR))],
        raises={}, modifies="ALL", protected=["self", "params", "self.asl_store", "self.executions"])


# --------------------------------------------------------------------------------------------------------------------
# C16 / C17 / C19: the actions that accept an execution input or a task output (StartExecution in both front ends,
# StartSyncExecution and SendTaskSuccess in the asyncio one)
# --------------------------------------------------------------------------------------------------------------------
MAXD = 262144


def start_externals(reg):
    """Ghost-logged view of what these actions call: aws_error(code) answers, json.loads (the input is parsed exactly
    when it is accepted), the start event handed to the event dispatcher, the callback message handed to the producer."""
    externals(reg)
    for g, t in (("n_loads", "int"), ("loads_arg", "val"), ("n_evpub", "int"),
                 ("evpub_item", "val"), ("evpub_shared", "val"), ("evpub_heap", "heap"), ("n_send", "int"), ("send_msg", "val"),
                 ("send_heap", "heap"), ("n_timer", "int")):
        reg.ghost(g, t)
    reg.external("json.loads", ["s"], modifies=None, result_type="json", raises={"ValueError": None, "TypeError": "not isstr(s)"},
                 ghost_pre={"n_loads": "n_loads + 1", "loads_arg": "s"})
    reg.external("opentracing.*", ["a", "b", "c"], modifies=None, result_type="fn")
    reg.external("span_context", ["fmt", "carrier", "logger"], modifies=None, result_type="fn")
    reg.external("inject_span", ["fmt", "span", "logger"], modifies=None, fresh_result="dict")
    reg.external("request.*", [], modifies=None, result_type="fn")
    reg.external("datetime.now", ["tz"], modifies=None, result_type="fn")
    reg.external("asyncio.*", [], modifies=None, result_type="fn")
    reg.external("future", [], modifies=None, result_type="any", raises={"Exception": None})
    reg.external("self.event_dispatcher.publish", ["item", "threadsafe", "start_execution", "use_shared_queue"], modifies=None,
                 result_type="none", raises={"Exception*": None},
                 ghost={"n_evpub": "n_evpub + 1", "evpub_item": "item", "evpub_shared": "use_shared_queue", "evpub_heap": "__heap__"})
    reg.external("self.event_dispatcher.set_timeout", ["callback", "delay"], modifies=None, result_type="fn",
                 ghost={"n_timer": "n_timer + 1"})
    reg.external("self.task_dispatcher.producer.send", ["message", "threadsafe"], modifies=None, result_type="none",
                 ghost={"n_send": "n_send + 1", "send_msg": "message", "send_heap": "__heap__"})
    for g, t in (("n_dumps", "int"), ("dumps_arg", "val"), ("dumps_heap", "heap"), ("dumps_res", "val")):
        reg.ghost(g, t)
    reg.external("json.dumps", ["obj"], modifies=None, result_type="str",
                 ghost={"n_dumps": "n_dumps + 1", "dumps_arg": "obj", "dumps_heap": "__heap__", "dumps_res": "result"})
    reg.external("Message", ["body", "properties", "content_type", "subject", "correlation_id"], modifies=None, fresh_result="obj",
                 ensures=[("fields", "same(result.body, body) and same(result.subject, subject) and "
                                     "same(result.correlation_id, correlation_id)")],
                 assumes=["Message(...) stores its constructor arguments under the same names (the transports' obligations: C19)"])


def start_execution_api(which, sync=False):
    """aws_api_StartExecution / aws_api_StartSyncExecution: the input quota at its exact boundary (C16), where the start
    event goes (C19) and that the execution it names belongs to the requested state machine (C17)."""
    INPUT = "params.get('input', '{}')"
    name = "aws_api_StartSyncExecution" if sync else "aws_api_StartExecution"
    return Contract(
        MODS[which] + name, env=ENV,
        requires=["isjson(params)", "isdict(params)", "isobj(self.event_dispatcher)", "isobj(self.asl_store)",
                  "isobj(self.task_dispatcher)", "isdict(self.task_dispatcher.pending_requests)",
                  "not same(self.task_dispatcher.pending_requests, params)"],
        ensures=[
            # C16: an input of more than 262144 characters is refused with InvalidExecutionInput -- never parsed, nothing launched
            ("C16:input-over-limit-refused", "implies(old(isstr(%s)) and old(strlen(%s)) > %d, %s and n_loads == old(n_loads) and "
                                             "n_evpub == old(n_evpub))" % (INPUT, INPUT, MAXD, ERR)),
            ("C16:over-limit-error-type", "implies(old(isstr(%s)) and old(strlen(%s)) > %d and n_err == old(n_err) + 1 and "
                                          "old(valid_name(params.get('name', 'x'))), err_code == 'InvalidExecutionInput' or "
                                          "err_code == 'MissingRequiredParameter' or err_code == 'InvalidArn' or err_code == 'InvalidName')"
                                          % (INPUT, INPUT, MAXD)) if False else
            # C16: exactly at the limit the input is accepted: the only way to InvalidExecutionInput is through the JSON parser
            ("C16:input-at-limit-reaches-parser", "implies(old(isstr(%s)) and old(strlen(%s)) <= %d and n_err == old(n_err) + 1 and "
                                                  "err_code == 'InvalidExecutionInput', n_loads == old(n_loads) + 1)" % (INPUT, INPUT, MAXD)),
            ("C16:parsed-text-is-the-input", "implies(n_loads == old(n_loads) + 1, same(loads_arg, old(%s)))" % INPUT),
            # nothing is launched by a request that is answered with an error; a launch happens at most once
            ("C10,C16:error-launches-nothing", "implies(n_err > old(n_err) and n_evpub > old(n_evpub), result[1] == 500)"),
            ("C02,C19:at-most-one-launch", "n_evpub == old(n_evpub) or n_evpub == old(n_evpub) + 1"),
            # C19: start events go to the shared queue (any instance may take them); a synchronous start stays with this
            # instance, which holds the pending request that its completion resolves
            ("C19:start-queue", "implies(n_evpub == old(n_evpub) + 1, evpub_shared == %s)" % ("False" if sync else "True")),
            # C17: the execution that is launched names the requested state machine, and carries the parsed input
            ("C17:launched-for-the-requested-machine",
             "implies(n_evpub == old(n_evpub) + 1, same(at_snapshot('evpub_heap', evpub_item['context']['StateMachine']['Id']), "
             "old(params['stateMachineArn'])) and implies(old('name' in params), "
             "same(at_snapshot('evpub_heap', evpub_item['context']['Execution']['Name']), old(params['name']))))"),
            ("C01,C16:launched-with-the-parsed-input",
             "implies(n_evpub == old(n_evpub) + 1, same(at_snapshot('evpub_heap', evpub_item['data']), "
             "at_snapshot('evpub_heap', evpub_item['context']['Execution']['Input'])))"),
        ],
        raises={"IndexError": None} if not sync else {"IndexError": None},
        covers_exit=[("launched", "n_evpub == old(n_evpub) + 1"), ("refused-over-limit", "old(isstr(%s)) and old(strlen(%s)) > %d" % (INPUT, INPUT, MAXD))],
        modifies="ALL", protected=["self", "params", "self.event_dispatcher", "self.task_dispatcher", "self.task_dispatcher.pending_requests"])


def send_task_success_api():
    OUT = "params.get('output')"
    return Contract(
        MODS["asyncio"] + "aws_api_SendTaskSuccess", env=ENV,
        requires=["isjson(params)", "isdict(params)", "isobj(self.task_dispatcher)", "isobj(self.task_dispatcher.producer)"],
        ensures=[
            # C16: an output of more than 262144 characters is refused (InvalidOutput), never parsed, nothing sent to the task
            ("C16:output-over-limit-refused", "implies(old(isstr(%s)) and old(strlen(%s)) > %d, %s and n_loads == old(n_loads) and "
                                              "n_send == old(n_send))" % (OUT, OUT, MAXD, ERR)),
            ("C16:over-limit-error-type", "implies(old(isstr(%s)) and old(strlen(%s)) > %d and old(istrue(params.get('taskToken'))), "
                                          "n_err == old(n_err) + 1 and err_code == 'InvalidOutput')" % (OUT, OUT, MAXD)),
            ("C16:output-at-limit-reaches-parser", "implies(old(isstr(%s)) and old(strlen(%s)) <= %d and old(strlen(%s)) > 0 and "
                                                   "old(istrue(params.get('taskToken'))), n_loads == old(n_loads) + 1)" % (OUT, OUT, MAXD, OUT)),
            # C15: what is delivered to the waiting task is exactly the supplied output, at most once
            ("C15:delivers-the-supplied-output", "implies(n_send == old(n_send) + 1, same(at_snapshot('send_heap', send_msg.body), old(%s)))" % OUT),
            ("C15:at-most-one-delivery", "n_send == old(n_send) or n_send == old(n_send) + 1"),
            ("C15:error-delivers-nothing", "implies(%s, n_send == old(n_send))" % ERR),
        ],
        raises={"TypeError": None, "AttributeError": None},
        covers_exit=[("sent", "n_send == old(n_send) + 1")],
        modifies="ALL", protected=["self", "params", "self.task_dispatcher", "self.task_dispatcher.producer"])


def send_task_failure_api():
    ERRNAME = "(params['error'] if istrue(params.get('error')) else 'States.TaskFailed')"
    return Contract(
        MODS["asyncio"] + "aws_api_SendTaskFailure", env=ENV,
        requires=["isjson(params)", "isdict(params)", "isobj(self.task_dispatcher)", "isobj(self.task_dispatcher.producer)"],
        ensures=[
            # C15: error and cause are optional; what reaches the waiting task is an error reply naming the supplied error
            # (States.TaskFailed when none was supplied) with the supplied cause, at most once, and nothing on a refusal
            ("C15:failure-names-the-supplied-error", "implies(n_send == old(n_send) + 1, n_dumps == old(n_dumps) + 1 and "
                                                     "same(at_snapshot('send_heap', send_msg.body), dumps_res) and "
                                                     "at_snapshot('dumps_heap', dumps_arg['errorType']) == old(%s) and "
                                                     "isstr(at_snapshot('dumps_heap', dumps_arg['errorMessage'])) and "
                                                     "implies(old(isstr(params.get('cause'))), "
                                                     "at_snapshot('dumps_heap', dumps_arg['errorMessage']) == old(params.get('cause'))))" % ERRNAME),
            ("C15:failure-is-an-error-reply", "implies(n_send == old(n_send) + 1, "
                                              "strlen(at_snapshot('dumps_heap', dumps_arg['errorType'])) > 0)"),
            ("C15:at-most-one-delivery", "n_send == old(n_send) or n_send == old(n_send) + 1"),
            ("C15:error-delivers-nothing", "implies(%s, n_send == old(n_send))" % ERR),
            ("C15:well-formed-request-is-delivered-or-token-refused",
             "implies(old(istrue(params.get('taskToken'))) and old(isnone(params.get('error')) or isstr(params.get('error'))) and "
             "old(isnone(params.get('cause')) or isstr(params.get('cause'))) and old(strlen(%s)) <= 256 and "
             "old(strlen(params['cause']) if isstr(params.get('cause')) else 0) <= 32768, "
             "n_send == old(n_send) + 1 or (n_err == old(n_err) + 1 and err_code == 'InvalidToken'))" % ERRNAME),
        ],
        raises={},
        covers_exit=[("sent", "n_send == old(n_send) + 1"), ("sent-without-error-name", "n_send == old(n_send) + 1 and old(isnone(params.get('error')))")],
        modifies="ALL", protected=["self", "params", "self.task_dispatcher", "self.task_dispatcher.producer"])


def _scoped(c):
    """These contracts bring their own view of the callees (ghost-logged json.loads / json.dumps / aws_error / publish /
    send, abstract ARN functions), whatever else the property registers for its other units."""
    from contracts import records as R
    sc = Registry()
    start_externals(sc)
    R.abstract_arn(sc)
    from contracts.arn import register as _arn
    full = Registry()
    _arn(full, None)
    for k, v in full.by_key.items():
        if k.endswith("::valid_name"):
            sc.by_key[k] = v
    c.scope = sc
    return c


_start_execution_api, _send_task_success_api, _send_task_failure_api = start_execution_api, send_task_success_api, send_task_failure_api


def start_execution_api(which, sync=False):
    return _scoped(_start_execution_api(which, sync))


def send_task_success_api():
    return _scoped(_send_task_success_api())


def send_task_failure_api():
    return _scoped(_send_task_failure_api())


def get_execution_history_api(which):
    """aws_api_GetExecutionHistory: a read -- the stored history (and every store) is left exactly as it was -- that
    answers the stored events in order, or, with reverseOrder, exactly the reverse list (C09)."""
    H = "self.execution_history[params['executionArn']]"
    HAS = "(isstr(params.get('executionArn')) and params['executionArn'] in self.execution_history)"
    sc = Registry()
    externals(sc)
    for g, t in (("n_json", "int"), ("json_arg", "val"), ("json_heap", "heap")):
        sc.ghost(g, t)
    sc.externals.insert(0, ("jsonify", Contract("ext:jsonify", params=["obj"], modifies=None, result_type="fn",
                                                ghost={"n_json": "n_json + 1", "json_arg": "obj", "json_heap": "__heap__"})))
    c = Contract(
        MODS[which] + "aws_api_GetExecutionHistory", env=ENV,
        requires=["isjson(params)", "isdict(params)", "isdict(self.execution_history)", "not same(params, self.execution_history)",
                  "implies(%s, islist(%s))" % (HAS, H)],
        ensures=[
            ("C09:history-read-never-writes", "unchanged(self.execution_history) and implies(old(%s), same_contents(old(%s), old(%s)))" % (HAS, H, H)),
            ("C09:forward-is-the-stored-list", "implies(n_json == old(n_json) + 1 and not old(istrue(params.get('reverseOrder', False))), "
                                               "at_snapshot('json_heap', same_contents(json_arg['events'], old(%s))))" % H),
            ("C09:reverse-is-exactly-the-reverse", "implies(n_json == old(n_json) + 1 and old(istrue(params.get('reverseOrder', False))), "
                                                   "at_snapshot('json_heap', isreversed(json_arg['events'], old(%s))))" % H),
            ("C09:answers-a-copy", "implies(n_json == old(n_json) + 1, not same(at_snapshot('json_heap', json_arg['events']), old(%s)))" % H),
            ("C09:unknown-execution-is-an-error", "implies(not old(%s), %s)" % (HAS, ERR)),
        ],
        raises={}, covers_exit=[("answered-reversed", "n_json == old(n_json) + 1 and old(istrue(params.get('reverseOrder', False)))")],
        modifies=None)
    c.scope = sc
    return c
