"""Contracts for asl_workflow_engine/arn.py and the name/ARN validators (C17, C16, C10)."""

FORBIDDEN = r'[ <>{}[\]?*"#%\\^|~`$&,;:/]'


def register(reg, repo):
    K = "asl_workflow_engine/arn.py::"
    reg.contract(
        K + "create_arn",
        types={"resource": "str", "arn": "str", "partition": "str", "service": "str", "region": "str",
               "account": "str", "resource_type": "strnone"},
        ensures=[
            ("format-with-type",
             "implies(isstr(resource_type) and strlen(resource_type) > 0, result == arn + ':' + partition + ':' + "
             "service + ':' + region + ':' + account + ':' + resource_type + ':' + resource)"),
            ("format-without-type",
             "implies(isnone(resource_type) or resource_type == '', result == arn + ':' + partition + ':' + "
             "service + ':' + region + ':' + account + ':' + resource)"),
        ],
        raises={}, modifies=None, inline=True,
        note="dict form (keyword expansion) is exercised through the lemmas, where it is inlined")
    reg.contract(
        K + "parse_arn", types={"arn": "str"},
        ensures=[
            ("keys", "keys_exactly(result, 'arn', 'partition', 'service', 'region', 'account', 'resource', 'resource_type')"),
            ("fresh", "fresh_ref(result)"),
        ],
        raises={"IndexError": None}, modifies=None, inline=True)
    for mod in ("rest_api_asyncio.py", "rest_api.py"):
        M = "asl_workflow_engine/%s::" % mod
        reg.contract(
            M + "valid_name", types={"name": "any"},
            ensures=[
                ("accepted-is-str", "implies(result, isstr(name))"),
                ("accepted-length", "implies(result, strlen(name) >= 1 and strlen(name) <= 80)"),
                # C17/C16: an accepted name contains none of the forbidden characters
                ("accepted-no-forbidden", "implies(result, not re_search(%r, name))" % FORBIDDEN),
                ("rejects-only-bad", "implies(isstr(name) and strlen(name) >= 1 and strlen(name) <= 80 and "
                                     "not re_search(%r, name), result)" % FORBIDDEN),
            ],
            raises={}, modifies=None, pure=True)
