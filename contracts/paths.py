"""
Contracts for asl_workflow_engine/state_engine_paths.py on the REAL bodies (C12) and merge_result (C01/C12).

jsonpath.jsonpath is external (it eval()s filter expressions); its assumed contract: returns False or a non-empty
list, modifies nothing, raises nothing.  Each call is recorded in ghost state (jp_doc, jp_expr, jp_result) so the
postconditions can say WHICH document was queried with WHICH expression and what was done with the answer.
"""
from pyvc.contracts import Contract, LoopContract

SP = "asl_workflow_engine/state_engine_paths.py::"
SE = "asl_workflow_engine/state_engine.py::"


def ghosts(reg):
    for g, s in (("n_jp", "int"), ("jp_doc", "val"), ("jp_expr", "val"), ("jp_result", "val")):
        reg.ghost(g, s)
    reg.external("jsonpath", ["obj", "expr", "result_type"], modifies=None, result_type="any",
                 ensures=[("false-or-matches", "isfalse(result) or (islist(result) and seqlen(result) >= 1)")],
                 ghost={"n_jp": "n_jp + 1", "jp_doc": "obj", "jp_expr": "expr", "jp_result": "result"},
                 assumes=["jsonpath.jsonpath returns False or a non-empty list of matches, does not modify its argument "
                          "and raises nothing (A2; for a definite path the list is [addressed value])"])


QUERIED = "n_jp == old(n_jp) + 1"
NOT_QUERIED = "n_jp == old(n_jp)"


def apply_jsonpath_contract():
    return Contract(
        SP + "apply_jsonpath", types={"input": "json", "path": "strnone", "throw_exception_on_failed_match": "bool"},
        ensures=[
            ("C12:null-selects-empty", "implies(isnone(input) or isnone(path), isemptydict(result) and fresh_ref(result) and %s)" % NOT_QUERIED),
            ("C12:dollar-selects-whole", "implies(not isnone(input) and path == '$', same(result, input) and %s)" % NOT_QUERIED),
            ("C12:queries-the-input", "implies(not isnone(input) and not isnone(path) and path != '$', "
                                      "%s and same(jp_doc, input) and jp_expr == path)" % QUERIED),
            ("C12:single-match-unwrapped", "implies(%s and islist(jp_result) and seqlen(jp_result) == 1 and "
                                           "not re_search(%r, path), same(result, jp_result[0]))" % (QUERIED, r"\[.*:.*\]")),
            ("C12:multi-match-is-list", "implies(%s and islist(jp_result) and seqlen(jp_result) > 1, same(result, jp_result))" % QUERIED),
            ("C12:no-match-never-invents", "implies(%s and throw_exception_on_failed_match, not isfalse(jp_result))" % QUERIED),
            ("C12:no-match-lenient", "implies(%s and isfalse(jp_result), isemptydict(result) and fresh_ref(result))" % QUERIED),
        ],
        raises={"PathMatchFailure": None},
        xensures={"PathMatchFailure": [("C12:only-on-no-match", "%s and isfalse(jp_result) and throw_exception_on_failed_match" % QUERIED)]},
        modifies=None)


def apply_path_contract():
    return Contract(
        SP + "apply_path", types={"input": "json", "context": "json", "path": "any", "throw_exception_on_failed_match": "bool"},
        requires=["implies(isdict(context) and haskey(context, 'Task') and isdict(context['Task']) and "
                  "haskey(context['Task'], 'Token'), isstr(context['Task']['Token']))"],
        ensures=[
            ("C12:null-path-selects-empty", "implies(isnone(path) or not isstr(path), isemptydict(result) and %s)" % NOT_QUERIED),
            ("C12:dollar-selects-whole", "implies(path == '$' and not isnone(input), same(result, input))"),
            ("C12:context-path-reads-context", "implies(isstr(path) and path.startswith('$$') and path != '$$' and "
                                               "not isnone(context), %s and same(jp_doc, context) and jp_expr == path[1:])" % QUERIED),
            ("C12:input-path-reads-input", "implies(isstr(path) and path.startswith('$') and not path.startswith('$$') and "
                                           "path != '$' and not isnone(input), %s and same(jp_doc, input) and jp_expr == path)" % QUERIED),
            ("C12:definite-path-exact", "implies(%s and islist(jp_result) and seqlen(jp_result) == 1 and isstr(path) and "
                                        "not re_search(%r, path) and path != '$$.Task.Token', same(result, jp_result[0]))"
             % (QUERIED, r"\[.*:.*\]")),
            ("C12:no-match-never-invents", "implies(%s and throw_exception_on_failed_match, not isfalse(jp_result))" % QUERIED),
        ],
        raises={"PathMatchFailure": None, "ParameterPathFailure": "isstr(path) and not path.startswith('$')",
                "TypeError": None},
        xensures={"PathMatchFailure": [("C12:only-on-no-match", "%s and isfalse(jp_result) and throw_exception_on_failed_match" % QUERIED)],
                  "TypeError": [("C12:only-token-encoding", "path == '$$.Task.Token'")]},
        modifies=None)


def update_path_contract():
    """One recursion step of the in-place update, against its own contract for the recursive call."""
    return Contract(
        SP + "apply_resultpath.<locals>.update_path", types={"target": "any", "keys": "list", "default": "any"},
        env={"input": "json", "result": "json", "path": "any"},
        requires=[("keys-are-strings", "forall(lambda i: implies(0 <= i and i < seqlen(keys), isstr(keys[i])))")],
        ensures=[
            ("C12:empty-path-replaces", "implies(old(seqlen(keys)) == 0, same(retval, default))"),
            ("C12:container-kept", "implies(old(seqlen(keys)) > 0, same(retval, target))"),
        ],
        raises={"ResultPathMatchFailure": None},
        modifies="ALL", preserves="PROTECTED")


def update_path_step_contract():
    c = update_path_contract()
    from pyvc.contracts import _clauses
    c.protected = []
    c.ensures = c.ensures + _clauses([
        # reading the placed key gives what the rest of the path produced; every other member is untouched
        ("C12:last-key-holds-result", "implies(old(seqlen(keys)) == 1 and isdict(target) and not is_decimal_str(old(keys[0])), "
                                      "same(target[old(keys[0])], default))"),
    ])
    return c


def apply_resultpath_contract():
    return Contract(
        SP + "apply_resultpath", types={"input": "json", "result": "json", "path": "strnone"},
        ensures=[
            ("C12:null-path-discards", "implies(isnone(path) and not isnone(input), same(retval, input) and "
                                       "implies(isdict(input) or islist(input), unchanged(input)))"),
            ("C12:null-path-null-input", "implies(isnone(path) and isnone(input), isemptydict(retval))"),
            ("C12:dollar-replaces", "implies(path == '$', same(retval, result) and "
                                    "implies(isdict(result) or islist(result), unchanged(result)) and "
                                    "implies(isdict(input) or islist(input), unchanged(input)))"),
        ],
        raises={"ResultPathMatchFailure": None},
        xensures={},
        modifies="ALL")


def merge_result_contract():
    return Contract(
        SE + "merge_result", types={"data": "any", "context": "any", "result": "any", "state": "dict", "output_path": "strnone"},
        ensures=[
            # ResultPath into the data, then OutputPath (or the caller's override when it is truthy)
            ("C01,C12:resultpath-then-outputpath",
             "same(retval, AP(RP(data, result, old(state.get('ResultPath', '$'))), context, "
             "old(output_path if istrue(output_path) else state.get('OutputPath', '$'))))"),
        ],
        raises={"ResultPathMatchFailure": None, "PathMatchFailure": None, "ParameterPathFailure": None, "Exception*": None},
        # region separation (A8): placing a result into the data does not write the state definition or the context
        protected=["state", "context"],
        modifies="ALL")
